#!/usr/bin/env python3
"""Extracts the audit UAPI constants the C06 oracle needs from /usr/include/linux/audit.h of this
image by compiling a tiny C program (so that macro expressions such as AUDIT_ARG0+1 are evaluated by
the C compiler, not pattern-matched) and writes harness/rule/zz_verif_uapi.go plus uapi/audit_uapi.json.
The field-name -> macro map is transcribed from audit-userspace's lib/fieldtab.h (auditctl)."""
import json, subprocess, hashlib, os, sys, tempfile
FIELDS = {"pid":"AUDIT_PID","uid":"AUDIT_UID","euid":"AUDIT_EUID","suid":"AUDIT_SUID","fsuid":"AUDIT_FSUID","gid":"AUDIT_GID","egid":"AUDIT_EGID",
 "sgid":"AUDIT_SGID","fsgid":"AUDIT_FSGID","auid":"AUDIT_LOGINUID","pers":"AUDIT_PERS","arch":"AUDIT_ARCH","msgtype":"AUDIT_MSGTYPE",
 "subj_user":"AUDIT_SUBJ_USER","subj_role":"AUDIT_SUBJ_ROLE","subj_type":"AUDIT_SUBJ_TYPE","subj_sen":"AUDIT_SUBJ_SEN","subj_clr":"AUDIT_SUBJ_CLR",
 "ppid":"AUDIT_PPID","obj_user":"AUDIT_OBJ_USER","obj_role":"AUDIT_OBJ_ROLE","obj_type":"AUDIT_OBJ_TYPE","obj_lev_low":"AUDIT_OBJ_LEV_LOW",
 "obj_lev_high":"AUDIT_OBJ_LEV_HIGH","devmajor":"AUDIT_DEVMAJOR","devminor":"AUDIT_DEVMINOR","inode":"AUDIT_INODE","exit":"AUDIT_EXIT",
 "success":"AUDIT_SUCCESS","path":"AUDIT_WATCH","perm":"AUDIT_PERM","dir":"AUDIT_DIR","filetype":"AUDIT_FILETYPE","obj_uid":"AUDIT_OBJ_UID",
 "obj_gid":"AUDIT_OBJ_GID","a0":"AUDIT_ARG0","a1":"AUDIT_ARG1","a2":"AUDIT_ARG2","a3":"AUDIT_ARG3","key":"AUDIT_FILTERKEY","exe":"AUDIT_EXE",
 "saddr_fam":"AUDIT_SADDR_FAM","field_compare":"AUDIT_FIELD_COMPARE"}
OPS = {"=":"AUDIT_EQUAL","!=":"AUDIT_NOT_EQUAL","<":"AUDIT_LESS_THAN",">":"AUDIT_GREATER_THAN","<=":"AUDIT_LESS_THAN_OR_EQUAL",">=":"AUDIT_GREATER_THAN_OR_EQUAL","&":"AUDIT_BIT_MASK","&=":"AUDIT_BIT_TEST"}
LISTS = {"user":"AUDIT_FILTER_USER","task":"AUDIT_FILTER_TASK","exit":"AUDIT_FILTER_EXIT","exclude":"AUDIT_FILTER_EXCLUDE"}
ACTIONS = {"never":"AUDIT_NEVER","always":"AUDIT_ALWAYS"}
PERMS = {"r":"AUDIT_PERM_READ","w":"AUDIT_PERM_WRITE","x":"AUDIT_PERM_EXEC","a":"AUDIT_PERM_ATTR"}
COMPARE = {("uid","obj_uid"):"AUDIT_COMPARE_UID_TO_OBJ_UID",("gid","obj_gid"):"AUDIT_COMPARE_GID_TO_OBJ_GID",("euid","obj_uid"):"AUDIT_COMPARE_EUID_TO_OBJ_UID",
 ("egid","obj_gid"):"AUDIT_COMPARE_EGID_TO_OBJ_GID",("auid","obj_uid"):"AUDIT_COMPARE_AUID_TO_OBJ_UID",("suid","obj_uid"):"AUDIT_COMPARE_SUID_TO_OBJ_UID",
 ("sgid","obj_gid"):"AUDIT_COMPARE_SGID_TO_OBJ_GID",("fsuid","obj_uid"):"AUDIT_COMPARE_FSUID_TO_OBJ_UID",("fsgid","obj_gid"):"AUDIT_COMPARE_FSGID_TO_OBJ_GID",
 ("uid","auid"):"AUDIT_COMPARE_UID_TO_AUID",("uid","euid"):"AUDIT_COMPARE_UID_TO_EUID",("uid","fsuid"):"AUDIT_COMPARE_UID_TO_FSUID",("uid","suid"):"AUDIT_COMPARE_UID_TO_SUID",
 ("auid","fsuid"):"AUDIT_COMPARE_AUID_TO_FSUID",("auid","suid"):"AUDIT_COMPARE_AUID_TO_SUID",("auid","euid"):"AUDIT_COMPARE_AUID_TO_EUID",
 ("euid","suid"):"AUDIT_COMPARE_EUID_TO_SUID",("euid","fsuid"):"AUDIT_COMPARE_EUID_TO_FSUID",("suid","fsuid"):"AUDIT_COMPARE_SUID_TO_FSUID",
 ("gid","egid"):"AUDIT_COMPARE_GID_TO_EGID",("gid","fsgid"):"AUDIT_COMPARE_GID_TO_FSGID",("gid","sgid"):"AUDIT_COMPARE_GID_TO_SGID",
 ("egid","fsgid"):"AUDIT_COMPARE_EGID_TO_FSGID",("egid","sgid"):"AUDIT_COMPARE_EGID_TO_SGID",("sgid","fsgid"):"AUDIT_COMPARE_SGID_TO_FSGID"}
OTHER = ["AUDIT_MAX_FIELDS","AUDIT_BITMASK_SIZE","AUDIT_MAX_KEY_LEN","AUDIT_ADD_RULE","AUDIT_DEL_RULE","AUDIT_LIST_RULES","AUDIT_GET","AUDIT_SET"]
macros = sorted(set(list(FIELDS.values())+list(OPS.values())+list(LISTS.values())+list(ACTIONS.values())+list(PERMS.values())+list(COMPARE.values())+OTHER))
hdr = "/usr/include/linux/audit.h"
src = '#include <stdio.h>\n#include <stddef.h>\n#include <linux/audit.h>\nint main(){\n' + "".join(f'printf("{m} %lu\\n",(unsigned long)({m}));\n' for m in macros)
src += 'printf("OFF_flags %lu\\n",(unsigned long)offsetof(struct audit_rule_data,flags));printf("OFF_action %lu\\n",(unsigned long)offsetof(struct audit_rule_data,action));printf("OFF_field_count %lu\\n",(unsigned long)offsetof(struct audit_rule_data,field_count));printf("OFF_mask %lu\\n",(unsigned long)offsetof(struct audit_rule_data,mask));printf("OFF_fields %lu\\n",(unsigned long)offsetof(struct audit_rule_data,fields));printf("OFF_values %lu\\n",(unsigned long)offsetof(struct audit_rule_data,values));printf("OFF_fieldflags %lu\\n",(unsigned long)offsetof(struct audit_rule_data,fieldflags));printf("OFF_buflen %lu\\n",(unsigned long)offsetof(struct audit_rule_data,buflen));printf("OFF_buf %lu\\n",(unsigned long)offsetof(struct audit_rule_data,buf));printf("SIZEOF_audit_status %lu\\n",(unsigned long)sizeof(struct audit_status));return 0;}\n'
d = tempfile.mkdtemp(dir=os.path.dirname(os.path.abspath(__file__)))
open(d+"/x.c","w").write(src)
cc = "gcc" if subprocess.call(["which","gcc"],stdout=subprocess.DEVNULL)==0 else "clang"
subprocess.check_call([cc,"-o",d+"/x",d+"/x.c"])
vals = dict(l.split() for l in subprocess.check_output([d+"/x"]).decode().splitlines())
vals = {k:int(v) for k,v in vals.items()}
import shutil; shutil.rmtree(d)
out = {"header":hdr,"sha256":hashlib.sha256(open(hdr,'rb').read()).hexdigest(),"values":vals,
       "fields":FIELDS,"operators":OPS,"lists":LISTS,"actions":ACTIONS,"perms":PERMS,"comparisons":{a+","+b:m for (a,b),m in COMPARE.items()}}
here = os.path.dirname(os.path.abspath(__file__))
json.dump(out,open(here+"/audit_uapi.json","w"),indent=1,sort_keys=True)
g = ["// Code generated by /verif/uapi/extract.py from "+hdr+" (sha256 "+out["sha256"][:16]+"...); DO NOT EDIT.","",
     "package rule","","// UAPI constants, independent of the package's own tables: the field-name -> macro map is","// transcribed from audit-userspace's fieldtab.h, the numbers come from the C header of this image.",""]
def gomap(name, m, vt="uint32"):
    g.append(f"var {name} = map[string]{vt}{{")
    for k in sorted(m): g.append(f'\t"{k}": {vals[m[k]]}, // {m[k]}')
    g.append("}"); g.append("")
gomap("vUAPIFields",FIELDS); gomap("vUAPIOps",OPS); gomap("vUAPILists",LISTS); gomap("vUAPIActions",ACTIONS); gomap("vUAPIPerms",PERMS)
g.append("var vUAPICompare = map[[2]string]uint32{")
for (a,b),m in sorted(COMPARE.items()): g.append(f'\t{{"{a}", "{b}"}}: {vals[m]}, // {m}')
g.append("}"); g.append("")
g.append("const (")
for k in ["OFF_flags","OFF_action","OFF_field_count","OFF_mask","OFF_fields","OFF_values","OFF_fieldflags","OFF_buflen","OFF_buf"]: g.append(f"\tvUAPI_{k} = {vals[k]}")
for k in OTHER: g.append(f"\tvUAPI_{k} = {vals[k]}")
g.append(")"); g.append("")
open(here+"/../harness/rule/zz_verif_uapi.go","w").write("\n".join(g))
print("ok", len(vals), "constants")
