#!/usr/bin/env python3
# Regenerates MANIFEST.json from the table below (keeps it schema-valid).
import json
TECH = "bounded symbolic execution of the real code (own go/ssa interpreter -> QF_BV SMT-LIB2 -> z3; every path condition and assertion decided by the solver; counterexamples replayed natively)"
NOTE_COMMON = ("Trusted: go/ssa lowering, the symgo interpreter's instruction semantics and intrinsics (sync, sync/atomic, time.Now stub, fmt summary), z3; amd64 layout. "
               "Holds only within the stated bounds (see evidence.coverage.jobs[].bounds and DESIGN.md section 5). ")
claimed = {
 "C01": ("Every feasible path of k API operations (push with unconstrained 32-bit sequence and 16-bit type / Maintain) + Close through the real Reassembler is explored; the monitor's exactly-once / grouping / order-in-group assertions are unsat-checked on each path, i.e. for all sequence numbers and record types at once.",
         "Bounds: k<=3 operations (quick) then Close; maxInFlight in {0,2}; constant clock, timeout far in the future; single goroutine."),
 "C02": ("Same exploration as C01; all-pairs ascending-order oracle (late arrivals excepted) over a symbolic 2^24 window base, so windows that straddle 2^32-1 -> 0 are covered symbolically.",
         "Bounds as C01; property's own assumption: all sequence numbers of a history within one 2^24 window."),
 "C03": ("Same exploration; ghost loss accounting (independent of lastSeq) compared with the sum of EventsLost arguments after every call, for all 32-bit sequence values.",
         "Bounds as C01; window assumption of C02."),
 "C10": ("Same exploration; after every push at most maxInFlight undelivered events, head not complete, every delivery outside Close has a cause (complete or over capacity).",
         "Bounds as C01; timeout far in the future so the time cause is excluded (C19 covers it)."),
 "C19": ("Reassembler harness with every time.Now() reading a symbolic non-decreasing instant: a stale head is flushed by the first call after expiry, nothing is flushed for time before expiry, Close flushes everything once, post-Close Maintain/Close fail and deliver nothing, no Reassembler without a Stream.",
         "Bounds: k<=2 (quick) / 3 (thorough) operations + Close; timeouts {-1s,0,5ms,2s,10^6h}; wall-clock-only instants; clock-dependent counterexamples are confirmed in the engine's concrete mode because the native clock cannot be forced."),
 "C08": ("Each AuditClient command is run against a harness-side kernel whose reply script is chosen symbolically (unsolicited sequence-0 records, EINTR/EAGAIN failures, ACK with any errno<=4095, foreign sequence, wrong type, short payload, symbolic status/rule bytes); on every path: nil exactly when the script acknowledged this request with errno 0, otherwise an error that errors.Is the chosen errno; returned status/rules equal the bytes sent; retry boundary 9 vs 10 transient failures.",
         "Bounds: one command (thorough: also pairs), <=1 (thorough 2) unsolicited records and transient failures per request, <=2 rules of 3 bytes; request numbers != 0; kernel simulated (no socket)."),
 "C16": ("Setters x wait modes with full-range symbolic arguments: captured request decoded at UAPI offsets (type, flags, 44-byte payload, exactly one mask bit, value in its field, all else zero); exported constants against UAPI values; FromWireFormat for every buffer length 0..64 and 100 with symbolic contents.",
         "UAPI numbers transcribed from /usr/include/linux/audit.h into the harness; kernel simulated. Known finding: LogOnFailure/PanicOnFailure constants (not repairable safely, see known_findings.txt)."),
 "C17": ("Histories of NoWait/WaitForReply setters, WaitForPendingACKs, GetRules and Close against the simulated kernel with a single reused receive buffer and symbolic errno per request: each NoWait ACK consumed exactly once and in order, first kernel error returned, no re-waiting, Close closes once and clears the PID iff SetPID was used, returned rule data never changes later.",
         "Bounds: histories of 3 (quick) / 4-5 (thorough) operations; domain: reply-waiting commands only when no NoWait ACK is outstanding; sequential Close only in this job."),
 "C18": ("NetlinkClient.Send/Receive and parseNetlinkAuditMessage executed symbolically with the socket syscalls replaced by harness stubs: header length/type/flags/pid/sequence and verbatim payload for all header values; sequence increases by one; 2-3 concurrent senders explored over every interleaving at synchronisation operations with vector-clock race detection; Receive for every datagram length 0..24 (thorough 0..64, 8986) x sender kinds x writer kinds: error and no data for short or non-kernel datagrams, exact bytes to the parser otherwise.",
         "Socket syscalls are stubs, so counterexamples are confirmed in the engine's concrete mode, not natively. Real sockets (NETLINK_ROUTE/USERSOCK observations) are outside."),
 "C05": ("ParseLogLine / Parse / Data / Tags / ToMapStr executed symbolically on every ASCII input within the length bounds (whole lines, bodies per enrichment path, key=<v> templates for every key an enrichment step reads, saddr hex of threshold lengths): every Go run-time fault is a feasible path the solver must refute, every path must end within its unwinding bound, err/msg agreement, error key in ToMapStr, repeated calls equal.",
         "Bounds: lines <=5 (thorough 7) bytes, bodies <=5-6 (7) bytes, field values <=4 (5) bytes, saddr up to 49 hex digits with 12 symbolic; ASCII only; regexp, fmt, strconv.Parse* are engine summaries validated by native replay of sampled paths."),
 "C04": ("Lines 'type=T msg=audit(S.mmm:N): body' are assembled from symbolic digit bytes (expected values by Horner construction, not by parsing) and a symbolic/hostile body; ParseLogLine and Parse must return exactly T, S, mmm (UTC), N and the trimmed text, ToMapStr must report the header keys whatever the body says; malformed headers (over-range or signed sequence, non-digit bytes, empty fields, every truncation) must give an error and no message.",
         "Bounds: 6 named types + all unnamed codes <1000 or >=2600 (quick), all 65536 codes (thorough); seconds 1-11 digits < 2^34, ms 3 digits, sequence 1-10 digits < 2^32, all digits symbolic; body <=3 (6) symbolic ASCII bytes + 5 hostile concrete bodies. strconv.Parse*/Format*, fmt, regexp and time.Time.String are engine summaries."),
 "C12": ("Records are assembled by a harness-side re-implementation of the kernel's encoding rule (quoted if all bytes safe, upper-case hex otherwise; struct sockaddr as hex) around symbolic byte values and parsed by the real Parse/Data: the decoded field must equal the original bytes for exe, cwd, name, proctitle (NUL->space), cmd, TTY data, acct, EXECVE arguments, IPv4/IPv6/unix socket addresses; plain fields unchanged with only the placeholders dropped; result/unset-id/errno/arch/syscall derivations.",
         "Bounds: values of 1-3 (thorough 4) symbolic bytes over 0x01..0xFF, execve 2x2, unix path 3 bytes, IPv6 with 3 symbolic address bytes; known finding C12-single-quote-inside-msg (fields nested in msg='...')."),
 "C20": ("Record types: String/GetAuditMessageType and MarshalText/UnmarshalText round trip for a symbolic 16-bit code (one path per table entry plus the unnamed codes through the UNKNOWN[n] text path); errno, architecture, per-arch syscall tables and the rule package's field/operator/comparison/reverse tables checked entry by entry by running the real lookups on the real tables.",
         "Tables are finite data: the check is a case split per entry; the solver's part is the 16-bit type domain. The normalisation-table clauses (normalizations.yaml) are not yet covered (YAML decoding is reflection; planned via a table image)."),
 "C13": ("ToCommandLine on valid rules with one or two 32-bit header words made symbolic (and on short buffers), Build on hostile Rule values (syscall digit strings across 0..2047 and beyond, 65 filters, garbage strings, nil/odd rules), flags.Parse on every short ASCII string and on templates with a symbolic hole after each flag: every run-time fault, every allocation beyond 4096 elements that follows a symbolic size, and every loop that exceeds its unwinding cap on a path is a violation; ToCommandLine success implies field_count<=64 and string lengths within the buffer.",
         "Bounds: 16 header word positions x 5 base rules, 4 word pairs, field_count restricted to boundary regions (quick), 5 symbolic mask bits per word; flag strings <=3 (thorough 5) symbolic bytes. Four defects found and fixed (see known_findings.txt)."),
}
props=[json.loads(l)['id'] for l in open('/verif/properties.jsonl')]
checks=[]
for p in props:
    if p in claimed:
        text,note=claimed[p]
        checks.append({"property_id":p,"quick_cmd":f"./check {p} quick","thorough_cmd":f"./check {p} thorough",
          "evidence_file":f"/verif/evidence/{p}.json","replay_cmd_template":"./check replay {path}","engine":"symgo",
          "level_claimed":{"category":"model_checking","text":text,"design_ref":f"DESIGN.md section 5 ({p})"},
          "level_note":NOTE_COMMON+note,"technique":TECH})
m={"version":1,"setup_cmd":"./setup.sh",
 "hooks":{"guard":"verif","enable":"no hooks: harness files are injected by overlay (go/packages Overlay for the engine, go test -overlay for native replay); nothing is compiled into /repo","baseline_off_cmd":"cd /repo && GOFLAGS=-mod=mod go test -vet=off -count=1 ./...","source_commits":[],"add_only":True},
 "engines":[{"name":"symgo","path":"engine","serves_properties":sorted(claimed),"kind_free_text":"own go/ssa symbolic executor -> SMT-LIB2 (QF_BV) -> z3; bounded symbolic execution of the real code, exploration by re-execution from decision prefixes, 16 workers"}],
 "checks":checks,
 "notes":"see DESIGN.md; known findings and fixes in known_findings.txt",
 "not_applicable":[{"property_id":p,"reason":"check not built yet (planned, DESIGN.md section 5); no claim is made"} for p in props if p not in claimed]}
json.dump(m,open('/verif/MANIFEST.json','w'),indent=1)
print("claimed:",sorted(claimed))
