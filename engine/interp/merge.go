package interp

import (
	"go/token"

	"symgo/smt"

	"golang.org/x/tools/go/ssa"
)

// Pure-callee merging: a call to a small, loop-free function that does not write to memory that
// existed before the call is explored locally (all its branch outcomes), and the scalar results
// are joined into ite terms instead of forking the whole path. If anything unexpected happens
// (a fault, a non-branch decision, too many local paths) the call is simply executed the
// ordinary, forking way: merging never changes a verdict, only the number of paths.

type localCtx struct {
	prefix []bool
	taken  []bool
	conds  []*smt.Term
	idBase int
	added  []*smt.Term // facts added locally (to be removed)
	parent *localCtx
}

type mergeAbort struct{ why string }

const maxLocalPaths = 24

// mergeable reports (cached) whether fn qualifies statically.
func (e *Engine) mergeable(fn *ssa.Function, depth int) bool {
	fi := e.info(fn)
	if fi.mergeChecked {
		return fi.mergeOK
	}
	if depth > 6 {
		return false
	}
	ok := e.mergeableBody(fn, depth)
	fi.mergeOK = ok
	fi.mergeChecked = true
	return ok
}

func (e *Engine) mergeableBody(fn *ssa.Function, depth int) bool {
	if fn.Blocks == nil || len(fn.Blocks) > 40 || fn.Recover != nil {
		return false
	}
	if e.info(fn).intrinsic != nil {
		return false
	}
	res := fn.Signature.Results()
	if res.Len() == 0 {
		return false
	}
	for i := 0; i < res.Len(); i++ {
		if _, ok := isFlatInt(res.At(i).Type()); !ok {
			return false
		}
	}
	for _, b := range fn.Blocks {
		for _, s := range b.Succs {
			if s.Index <= b.Index {
				return false // loop
			}
		}
		for _, in := range b.Instrs {
			switch in := in.(type) {
			case *ssa.BinOp:
				if in.Op == token.QUO || in.Op == token.REM {
					return false
				}
			case *ssa.UnOp:
				if in.Op == token.ARROW {
					return false
				}
			case *ssa.Phi, *ssa.If, *ssa.Jump, *ssa.Return, *ssa.Field, *ssa.FieldAddr, *ssa.Extract,
				*ssa.Convert, *ssa.ChangeType, *ssa.Alloc, *ssa.Store, *ssa.DebugRef, *ssa.IndexAddr, *ssa.Index:
			case *ssa.Call:
				if in.Call.IsInvoke() {
					return false
				}
				switch c := in.Call.Value.(type) {
				case *ssa.Function:
					ci := e.info(c)
					if ci.harness != "" {
						switch ci.harness {
						case "vOr", "vAnd", "vImplies", "vIf":
						default:
							return false
						}
					} else if !e.mergeable(c, depth+1) {
						// callee must itself be mergeable (or trivially pure)
						return false
					}
				case *ssa.Builtin:
					switch c.Name() {
					case "len", "cap":
					default:
						return false
					}
				default:
					return false
				}
			default:
				return false
			}
		}
	}
	return true
}

// callMerged explores fn locally. ok=false means "fall back to ordinary execution".
func (r *Run) callMerged(fn *ssa.Function, args []Value, env []Value, caller *frame) (result Value, ok bool) {
	type outcome struct {
		cond *smt.Term
		val  Value
	}
	var outs []outcome
	stack := [][]bool{nil}
	saveSteps := r.steps
	saveDepth := r.depth
	parent := r.local
	idBase := r.idc
	cleanup := func(lc *localCtx) {
		for _, c := range lc.added {
			delete(r.facts, c)
		}
	}
	defer func() { r.local = parent }()
	for len(stack) > 0 {
		pre := stack[len(stack)-1]
		stack = stack[:len(stack)-1]
		lc := &localCtx{prefix: pre, idBase: idBase, parent: parent}
		r.local = lc
		var val Value
		failed := false
		func() {
			defer func() {
				if rec := recover(); rec != nil {
					switch rec.(type) {
					case mergeAbort, targetPanic:
						failed = true
					default:
						cleanup(lc)
						r.local = parent
						panic(rec)
					}
				}
			}()
			val = r.callFnPlain(fn, args, env, caller)
		}()
		cleanup(lc)
		r.depth = saveDepth
		if failed {
			r.steps = saveSteps
			return nil, false
		}
		// queue the alternatives discovered on this local path
		for i := len(pre); i < len(lc.taken); i++ {
			alt := append(append([]bool(nil), lc.taken[:i]...), !lc.taken[i])
			stack = append(stack, alt)
		}
		cond := smt.True
		for _, c := range lc.conds {
			cond = r.B.And(cond, c)
		}
		outs = append(outs, outcome{cond, val})
		if len(outs)+len(stack) > maxLocalPaths {
			r.steps = saveSteps
			return nil, false
		}
	}
	// join
	merged := outs[len(outs)-1].val
	for i := len(outs) - 2; i >= 0; i-- {
		o := outs[i]
		switch v := o.val.(type) {
		case *smt.Term:
			merged = r.B.Ite(o.cond, v, merged.(*smt.Term))
		case Tuple:
			mt := merged.(Tuple)
			nt := make(Tuple, len(v))
			for k := range v {
				nt[k] = r.B.Ite(o.cond, v[k].(*smt.Term), mt[k].(*smt.Term))
			}
			merged = nt
		default:
			return nil, false
		}
	}
	return merged, true
}

// localBranch decides a branch inside a merged call without consulting the solver.
func (r *Run) localBranch(c *smt.Term) bool {
	lc := r.local
	i := len(lc.taken)
	var out bool
	if i < len(lc.prefix) {
		out = lc.prefix[i]
	} else {
		out = true
	}
	lc.taken = append(lc.taken, out)
	lit := c
	if !out {
		lit = r.B.Not(c)
	}
	lc.conds = append(lc.conds, lit)
	// local facts so that repeated tests of the same condition are consistent
	key := c
	if _, exists := r.facts[key]; !exists {
		r.facts[key] = out
		lc.added = append(lc.added, key)
	}
	return out
}
