package interp

import (
	"fmt"
	"go/constant"
	"go/token"
	"go/types"
	"math"

	"symgo/smt"

	"golang.org/x/tools/go/ssa"
)

func constValue(c *ssa.Const) Value {
	t := c.Type()
	if c.Value == nil {
		return zero(t)
	}
	if b, ok := t.Underlying().(*types.Basic); ok {
		switch {
		case b.Info()&types.IsBoolean != 0:
			return smt.Bool(constant.BoolVal(c.Value))
		case b.Info()&types.IsInteger != 0:
			w, _ := isFlatInt(t)
			if b.Info()&types.IsUnsigned != 0 {
				u, _ := constant.Uint64Val(constant.ToInt(c.Value))
				return smt.Const(w, u)
			}
			i, _ := constant.Int64Val(constant.ToInt(c.Value))
			return smt.Const(w, uint64(i))
		case b.Info()&types.IsFloat != 0:
			f, _ := constant.Float64Val(c.Value)
			return Float(f)
		case b.Info()&types.IsString != 0:
			return mkStr(constant.StringVal(c.Value))
		}
	}
	panic(unsupported("constant of type " + t.String()))
}

func (r *Run) asInt(v Value) *smt.Term {
	switch v := v.(type) {
	case *smt.Term:
		return v
	case Poison:
		panic(unsupported("use of unmodelled value: " + v.Why))
	}
	panic(unsupported(fmt.Sprintf("expected integer, got %T", v)))
}

func (r *Run) strLess(a, b Str, orEq bool) *smt.Term {
	// lexicographic a < b (or a <= b)
	n := len(a.B)
	if len(b.B) < n {
		n = len(b.B)
	}
	// tail: when the common prefix is equal
	var tail *smt.Term
	if orEq {
		tail = smt.Bool(len(a.B) <= len(b.B))
	} else {
		tail = smt.Bool(len(a.B) < len(b.B))
	}
	res := tail
	for i := n - 1; i >= 0; i-- {
		res = r.B.Ite(r.B.Eq(a.B[i], b.B[i]), res, r.B.Ult(a.B[i], b.B[i]))
	}
	return res
}

func (r *Run) binop(op token.Token, xt types.Type, x, y Value) Value {
	switch x := x.(type) {
	case *smt.Term:
		yt, ok := y.(*smt.Term)
		if !ok {
			if p, ok := y.(Poison); ok {
				return p
			}
			panic(unsupported(fmt.Sprintf("binop %s: int with %T", op, y)))
		}
		return r.intBinop(op, xt, x, yt)
	case Float:
		yf, ok := y.(Float)
		if !ok {
			panic(unsupported("float binop with non-float"))
		}
		switch op {
		case token.ADD:
			return x + yf
		case token.SUB:
			return x - yf
		case token.MUL:
			return x * yf
		case token.QUO:
			return x / yf
		case token.EQL:
			return smt.Bool(x == yf)
		case token.NEQ:
			return smt.Bool(x != yf)
		case token.LSS:
			return smt.Bool(x < yf)
		case token.LEQ:
			return smt.Bool(x <= yf)
		case token.GTR:
			return smt.Bool(x > yf)
		case token.GEQ:
			return smt.Bool(x >= yf)
		}
	case Str:
		ys, ok := y.(Str)
		if !ok {
			if p, ok := y.(Poison); ok {
				return p
			}
			panic(unsupported("string binop with non-string"))
		}
		switch op {
		case token.ADD:
			if len(x.B) == 0 {
				return ys
			}
			if len(ys.B) == 0 {
				return x
			}
			nb := make([]*smt.Term, 0, len(x.B)+len(ys.B))
			nb = append(append(nb, x.B...), ys.B...)
			return Str{nb}
		case token.EQL:
			return r.strEq(x, ys)
		case token.NEQ:
			return r.B.Not(r.strEq(x, ys))
		case token.LSS:
			return r.strLess(x, ys, false)
		case token.LEQ:
			return r.strLess(x, ys, true)
		case token.GTR:
			return r.strLess(ys, x, false)
		case token.GEQ:
			return r.strLess(ys, x, true)
		}
	case Poison:
		return x
	}
	switch op {
	case token.EQL:
		return r.valueEq(x, y)
	case token.NEQ:
		return r.B.Not(r.valueEq(x, y))
	}
	panic(unsupported(fmt.Sprintf("binop %s on %T", op, x)))
}

func (r *Run) intBinop(op token.Token, xt types.Type, x, y *smt.Term) Value {
	B := r.B
	signed := isSigned(xt)
	if x.W == 0 { // booleans
		switch op {
		case token.EQL:
			return B.Eq(x, y)
		case token.NEQ:
			return B.Not(B.Eq(x, y))
		case token.AND, token.LAND:
			return B.And(x, y)
		case token.OR, token.LOR:
			return B.Or(x, y)
		}
		panic(unsupported("bool binop " + op.String()))
	}
	switch op {
	case token.ADD:
		return B.Add(x, y)
	case token.SUB:
		return B.Sub(x, y)
	case token.MUL:
		return B.Mul(x, y)
	case token.QUO, token.REM:
		zero := smt.Const(y.W, 0)
		if r.branch(B.Eq(y, zero)) {
			panic(r.fault("integer divide by zero", ""))
		}
		if op == token.QUO {
			if signed {
				return B.SDiv(x, y)
			}
			return B.UDiv(x, y)
		}
		if signed {
			return B.SRem(x, y)
		}
		return B.URem(x, y)
	case token.AND:
		return B.BAnd(x, y)
	case token.OR:
		return B.BOr(x, y)
	case token.XOR:
		return B.BXor(x, y)
	case token.AND_NOT:
		return B.BAnd(x, B.BNot(y))
	case token.EQL:
		return B.Eq(x, y)
	case token.NEQ:
		return B.Not(B.Eq(x, y))
	case token.LSS:
		if signed {
			return B.Slt(x, y)
		}
		return B.Ult(x, y)
	case token.LEQ:
		if signed {
			return B.Sle(x, y)
		}
		return B.Ule(x, y)
	case token.GTR:
		if signed {
			return B.Slt(y, x)
		}
		return B.Ult(y, x)
	case token.GEQ:
		if signed {
			return B.Sle(y, x)
		}
		return B.Ule(y, x)
	}
	panic(unsupported("int binop " + op.String()))
}

// shift implements x << y and x >> y with Go semantics; yt is the type of the count.
func (r *Run) shift(op token.Token, xt, yt types.Type, x, y *smt.Term) Value {
	B := r.B
	if isSigned(yt) {
		if r.branch(B.Slt(y, smt.Const(y.W, 0))) {
			panic(r.fault("negative shift amount", ""))
		}
	}
	w := x.W
	var big *smt.Term // count >= width
	var yy *smt.Term
	if y.W > w {
		big = B.Uge(y, smt.Const(y.W, uint64(w)))
		yy = B.Extract(y, w-1, 0)
	} else {
		yy = B.ZExt(y, w)
		big = B.Uge(yy, smt.Const(w, uint64(w)))
	}
	switch op {
	case token.SHL:
		return B.Ite(big, smt.Const(w, 0), B.Shl(x, yy))
	case token.SHR:
		if isSigned(xt) {
			return B.Ite(big, B.AShr(x, smt.Const(w, uint64(w-1))), B.AShr(x, yy))
		}
		return B.Ite(big, smt.Const(w, 0), B.LShr(x, yy))
	}
	panic("shift")
}

func (r *Run) unop(instr *ssa.UnOp, x Value) Value {
	switch instr.Op {
	case token.MUL: // load
		p, ok := x.(Ptr)
		if !ok {
			if po, ok := x.(Poison); ok {
				panic(unsupported("load through unmodelled pointer: " + po.Why))
			}
			panic(unsupported(fmt.Sprintf("load through %T", x)))
		}
		return r.load(p, instr.Type())
	case token.NOT:
		return r.B.Not(r.asInt(x))
	case token.SUB:
		switch x := x.(type) {
		case *smt.Term:
			return r.B.Neg(x)
		case Float:
			return -x
		}
	case token.XOR:
		return r.B.BNot(r.asInt(x))
	case token.ARROW:
		panic(unsupported("channel receive"))
	}
	if p, ok := x.(Poison); ok {
		return p
	}
	panic(unsupported("unop " + instr.Op.String()))
}

// conv implements the SSA Convert instruction.
func (r *Run) conv(dst, src types.Type, v Value) Value {
	if p, ok := v.(Poison); ok {
		return p
	}
	du, su := dst.Underlying(), src.Underlying()
	// unsafe.Pointer round trips
	if isUnsafePtr(dst) {
		switch v := v.(type) {
		case Ptr:
			return v
		case *smt.Term:
			if v.IsConst() && v.K == 0 {
				return Ptr{}
			}
			panic(unsupported("uintptr -> unsafe.Pointer"))
		}
	}
	if isUnsafePtr(src) {
		if pt, ok := du.(*types.Pointer); ok {
			p := v.(Ptr)
			if p.A == nil && p.V == nil {
				return p
			}
			if p.V == nil && p.SI == nil && types.Identical(slotType(p.A, p.I), pt.Elem()) {
				return p
			}
			if p.V != nil && types.Identical(p.V.T, pt.Elem()) {
				return p
			}
			return r.makeView(p, pt.Elem())
		}
		if _, ok := du.(*types.Basic); ok { // uintptr
			p := v.(Ptr)
			if p.A == nil && p.V == nil {
				return smt.Const(64, 0)
			}
			return Poison{"unsafe.Pointer -> uintptr"}
		}
	}
	switch d := du.(type) {
	case *types.Basic:
		switch {
		case d.Info()&types.IsInteger != 0:
			w, _ := isFlatInt(dst)
			switch x := v.(type) {
			case *smt.Term:
				return r.B.Resize(x, w, isSigned(src))
			case Float:
				f := float64(x)
				if d.Info()&types.IsUnsigned != 0 {
					return smt.Const(w, uint64(f))
				}
				return smt.Const(w, uint64(int64(f)))
			}
		case d.Info()&types.IsFloat != 0:
			switch x := v.(type) {
			case Float:
				if d.Kind() == types.Float32 {
					return Float(float32(x))
				}
				return x
			case *smt.Term:
				if !x.IsConst() {
					panic(unsupported("symbolic int -> float"))
				}
				if isSigned(src) {
					return Float(float64(x.Signed()))
				}
				return Float(float64(x.K))
			}
		case d.Info()&types.IsString != 0:
			switch s := su.(type) {
			case *types.Basic:
				if s.Info()&types.IsString != 0 {
					return v
				}
				if s.Info()&types.IsInteger != 0 {
					return r.runeToString(r.B.Resize(v.(*smt.Term), 32, isSigned(src)))
				}
			case *types.Slice:
				sl := v.(Slice)
				if eb, ok := s.Elem().Underlying().(*types.Basic); ok && eb.Kind() == types.Uint8 {
					return Str{append([]*smt.Term(nil), r.sliceBytes(sl)...)}
				}
				// []rune -> string
				var out []*smt.Term
				for i := 0; i < sl.Len; i++ {
					out = append(out, r.runeToString(r.sliceGet(sl, i).(*smt.Term)).B...)
				}
				return Str{out}
			}
		}
	case *types.Slice:
		if s, ok := su.(*types.Basic); ok && s.Info()&types.IsString != 0 {
			str := v.(Str)
			if eb, ok := d.Elem().Underlying().(*types.Basic); ok && eb.Kind() == types.Uint8 {
				sl := r.newByteSlice(str.B)
				return sl
			}
			// string -> []rune
			runes := r.decodeRunes(str)
			a := newArray(d.Elem(), len(runes))
			a.ID = r.newID()
			for i, ru := range runes {
				a.E[i] = ru
			}
			return Slice{A: a, Len: len(runes), Cap: len(runes)}
		}
		if _, ok := su.(*types.Slice); ok {
			return v
		}
	case *types.Pointer:
		if _, ok := su.(*types.Pointer); ok {
			return v
		}
	}
	if types.Identical(du, su) {
		return v
	}
	panic(unsupported(fmt.Sprintf("convert %s -> %s", src, dst)))
}

// runeToString encodes one rune as UTF-8; symbolic runes fork on the encoding length.
func (r *Run) runeToString(ru *smt.Term) Str {
	B := r.B
	c := func(v uint64) *smt.Term { return smt.Const(32, v) }
	if ru.IsConst() {
		return mkStr(string(rune(int32(ru.K))))
	}
	// invalid runes -> U+FFFD
	invalid := B.Or(B.Ugt(ru, c(0x10FFFF)), B.And(B.Uge(ru, c(0xD800)), B.Ule(ru, c(0xDFFF))))
	if r.branch(invalid) {
		return mkStr("�")
	}
	ex := func(hi, lo uint8) *smt.Term { return B.Extract(ru, hi, lo) }
	switch {
	case r.branch(B.Ult(ru, c(0x80))):
		return Str{[]*smt.Term{ex(7, 0)}}
	case r.branch(B.Ult(ru, c(0x800))):
		return Str{[]*smt.Term{
			B.BOr(smt.Const(8, 0xC0), B.ZExt(ex(10, 6), 8)),
			B.BOr(smt.Const(8, 0x80), B.ZExt(ex(5, 0), 8))}}
	case r.branch(B.Ult(ru, c(0x10000))):
		return Str{[]*smt.Term{
			B.BOr(smt.Const(8, 0xE0), B.ZExt(ex(15, 12), 8)),
			B.BOr(smt.Const(8, 0x80), B.ZExt(ex(11, 6), 8)),
			B.BOr(smt.Const(8, 0x80), B.ZExt(ex(5, 0), 8))}}
	}
	return Str{[]*smt.Term{
		B.BOr(smt.Const(8, 0xF0), B.ZExt(ex(20, 18), 8)),
		B.BOr(smt.Const(8, 0x80), B.ZExt(ex(17, 12), 8)),
		B.BOr(smt.Const(8, 0x80), B.ZExt(ex(11, 6), 8)),
		B.BOr(smt.Const(8, 0x80), B.ZExt(ex(5, 0), 8))}}
}

// decodeRune decodes the rune at the start of s (len(s) > 0), forking as needed.
// It runs the real utf8.DecodeRuneInString when a non-ASCII byte is possible.
func (r *Run) decodeRune(s Str) (*smt.Term, int) {
	b0 := s.B[0]
	if b0.IsConst() && b0.K < 0x80 {
		return smt.Const(32, b0.K), 1
	}
	if r.branch(r.B.Ult(b0, smt.Const(8, 0x80))) {
		return r.B.ZExt(b0, 32), 1
	}
	fn := r.E.lookupFunc("unicode/utf8", "DecodeRuneInString")
	if fn == nil {
		panic(unsupported("utf8.DecodeRuneInString not loaded"))
	}
	lim := s
	if len(lim.B) > 4 {
		lim = Str{s.B[:4]}
	}
	res := r.callFn(fn, []Value{lim}, nil, nil).(Tuple)
	size := res[1].(*smt.Term)
	n := int(r.concretize(size, "rune size"))
	return res[0].(*smt.Term), n
}

func (r *Run) decodeRunes(s Str) []*smt.Term {
	var out []*smt.Term
	for pos := 0; pos < len(s.B); {
		ru, n := r.decodeRune(Str{s.B[pos:]})
		out = append(out, ru)
		pos += n
	}
	return out
}

var _ = math.MaxInt64
