package interp

import (
	"go/types"
	"strconv"

	"symgo/smt"

	"golang.org/x/tools/go/ssa"
)

// Summaries of strconv.ParseUint / ParseInt / Atoi for bases 2..36 (not base 0). The real code
// forks per character class and per overflow test, i.e. ~10^4 paths for four symbolic bytes; the
// summary forks at most three ways (ok / syntax error / range error) and yields the value as a
// Horner term over the digit bytes. Strings too long to rule out 64-bit overflow, and base 0, are
// executed from the real SSA instead.

const (
	pOK = iota
	pSyntax
	pRange
)

func (r *Run) numError(fn string, s Str, errGlobal string) Value {
	t := r.E.lookupType("strconv", "NumError")
	var errV Value = Iface{}
	for _, p := range r.E.Prog.AllPackages() {
		if p.Pkg.Path() == "strconv" {
			if g, ok := p.Members[errGlobal].(*ssa.Global); ok {
				errV = r.load(Ptr{A: r.E.globals[g], I: 0}, g.Type().Underlying().(*types.Pointer).Elem())
			}
		}
	}
	return Iface{T: types.NewPointer(t), V: r.newObject(t, mkStr(fn), s, errV)}
}

// digitValue returns (value, valid) of character c in the given base.
func (r *Run) digitValue(c *smt.Term, base int) (*smt.Term, *smt.Term) {
	B := r.B
	k := func(v byte) *smt.Term { return smt.Const(8, uint64(v)) }
	isDig := B.And(B.Uge(c, k('0')), B.Ule(c, k('9')))
	lower := B.BOr(c, k(0x20))
	isLet := B.And(B.Uge(lower, k('a')), B.Ule(lower, k('z')))
	d := B.Ite(isDig, B.Sub(c, k('0')), B.Add(B.Sub(lower, k('a')), k(10)))
	valid := B.And(B.Or(isDig, isLet), B.Ult(d, k(byte(base))))
	return d, valid
}

// maxDigitsNoOverflow: with at most this many digits the value fits 64 bits.
func maxDigitsNoOverflow(base int) int {
	n := 0
	v := uint64(1)
	for {
		if v > (^uint64(0))/uint64(base) {
			return n
		}
		v *= uint64(base)
		n++
	}
}

// parseUintSym models ParseUint(s, base, bitSize) for symbolic s. ok=false: use the real code.
func (r *Run) parseUintSym(s []*smt.Term, base int, maxVal uint64) (val *smt.Term, outcome int, ok bool) {
	B := r.B
	if len(s) == 0 {
		return smt.Const(64, 0), pSyntax, true
	}
	if base == 0 {
		// prefix detection as in the real code; underscores (legal only with base 0) go to the real code
		us := smt.False
		for _, c := range s {
			us = B.Or(us, B.Eq(c, smt.Const(8, '_')))
		}
		if r.branch(us) {
			return nil, 0, false
		}
		base = 10
		if r.branch(B.Eq(s[0], smt.Const(8, '0'))) {
			base = 8
			rest := s[1:]
			if len(s) >= 3 {
				l := B.BOr(s[1], smt.Const(8, 0x20))
				isB, isO, isX := B.Eq(l, smt.Const(8, 'b')), B.Eq(l, smt.Const(8, 'o')), B.Eq(l, smt.Const(8, 'x'))
				switch r.decide(dkOther, []*smt.Term{B.AndN(B.Not(isB), B.Not(isO), B.Not(isX)), isB, isO, isX}) {
				case 1:
					base, rest = 2, s[2:]
				case 2:
					base, rest = 8, s[2:]
				case 3:
					base, rest = 16, s[2:]
				}
			}
			if len(rest) == 0 {
				return smt.Const(64, 0), pOK, true // "0"
			}
			s = rest
		}
	}
	if base < 2 || base > 36 || len(s) > maxDigitsNoOverflow(base) {
		return nil, 0, false
	}
	n := smt.Const(64, 0)
	allValid := smt.True // chars before i valid
	noOvf := smt.True    // no overflow before i
	synErr := smt.False
	rngErr := smt.False
	for _, c := range s {
		d, valid := r.digitValue(c, base)
		synErr = B.Or(synErr, B.AndN(allValid, noOvf, B.Not(valid)))
		n = B.Add(B.Mul(n, smt.Const(64, uint64(base))), B.ZExt(d, 64))
		ovf := B.Ugt(n, smt.Const(64, maxVal))
		rngErr = B.Or(rngErr, B.AndN(allValid, valid, noOvf, ovf))
		allValid = B.And(allValid, valid)
		noOvf = B.And(noOvf, B.Not(ovf))
	}
	okc := B.And(allValid, noOvf)
	switch r.decide(dkOther, []*smt.Term{okc, synErr, rngErr}) {
	case 0:
		if base == 10 && !n.IsConst() {
			if r.hornerReg == nil {
				r.hornerReg = map[*smt.Term]hornerEntry{}
			}
			r.hornerReg[n] = hornerEntry{digits: s, maxVal: maxVal}
			// lossless truncations are rebuilt by the term simplifier, so register them as well
			for _, w := range []uint8{8, 16, 32} {
				if maxVal < uint64(1)<<w {
					r.hornerReg[B.Extract(n, w-1, 0)] = hornerEntry{digits: s, maxVal: maxVal}
				}
			}
		}
		return n, pOK, true
	case 1:
		return smt.Const(64, 0), pSyntax, true
	}
	return smt.Const(64, maxVal), pRange, true
}

func allConcrete(s []*smt.Term) bool {
	for _, b := range s {
		if !b.IsConst() {
			return false
		}
	}
	return true
}

func (r *Run) parseArgs(args []Value) (s Str, base, bitSize int, ok bool) {
	s, _ = args[0].(Str)
	bt, bs := r.asInt(args[1]), r.asInt(args[2])
	if !bt.IsConst() || !bs.IsConst() {
		return s, 0, 0, false
	}
	base, bitSize = int(int64(bt.K)), int(int64(bs.K))
	if bitSize == 0 {
		bitSize = 64
	}
	if bitSize < 0 || bitSize > 64 {
		return s, base, bitSize, false
	}
	return s, base, bitSize, true
}

func (r *Run) parseIntModel(fnName string, s Str, base, bitSize int) (Value, bool) {
	B := r.B
	if len(s.B) == 0 {
		return Tuple{smt.Const(64, 0), r.numError(fnName, s, "ErrSyntax")}, true
	}
	rest := s.B
	neg := false
	c0 := s.B[0]
	isPlus, isMinus := B.Eq(c0, smt.Const(8, '+')), B.Eq(c0, smt.Const(8, '-'))
	switch r.decide(dkOther, []*smt.Term{B.And(B.Not(isPlus), B.Not(isMinus)), isPlus, isMinus}) {
	case 1:
		rest = rest[1:]
	case 2:
		rest = rest[1:]
		neg = true
	}
	maxU := ^uint64(0)
	if bitSize < 64 {
		maxU = uint64(1)<<uint(bitSize) - 1
	}
	un, outcome, ok := r.parseUintSym(rest, base, maxU)
	if !ok {
		return nil, false
	}
	if outcome == pSyntax {
		return Tuple{smt.Const(64, 0), r.numError(fnName, s, "ErrSyntax")}, true
	}
	cutoff := uint64(1) << uint(bitSize-1)
	var over *smt.Term
	if neg {
		over = B.Ugt(un, smt.Const(64, cutoff))
	} else {
		over = B.Uge(un, smt.Const(64, cutoff))
	}
	if r.branch(over) {
		if neg {
			return Tuple{smt.Const(64, -cutoff), r.numError(fnName, s, "ErrRange")}, true
		}
		return Tuple{smt.Const(64, cutoff-1), r.numError(fnName, s, "ErrRange")}, true
	}
	v := un
	if neg {
		v = B.Neg(un)
	}
	return Tuple{v, Iface{}}, true
}

func init() {
	fallback := func(r *Run, caller *frame, fn *ssa.Function, args []Value) Value {
		// run the real code: temporarily bypass the intrinsic
		fi := r.E.info(fn)
		save := fi.intrinsic
		_ = save
		return r.callBody(fn, args, caller)
	}
	reg("strconv.ParseUint", func(r *Run, caller *frame, fn *ssa.Function, args []Value) Value {
		s, base, bitSize, ok := r.parseArgs(args)
		if !ok || allConcrete(s.B) && len(s.B) > 0 && false {
			return fallback(r, caller, fn, args)
		}
		if allConcrete(s.B) {
			cs, _ := concreteString(s)
			v, err := strconv.ParseUint(cs, base, bitSize)
			if err == nil {
				return Tuple{smt.Const(64, v), Iface{}}
			}
			ne := err.(*strconv.NumError)
			g := "ErrSyntax"
			if ne.Err == strconv.ErrRange {
				g = "ErrRange"
			}
			return Tuple{smt.Const(64, v), r.numError("ParseUint", s, g)}
		}
		maxU := ^uint64(0)
		if bitSize < 64 {
			maxU = uint64(1)<<uint(bitSize) - 1
		}
		v, outcome, ok := r.parseUintSym(s.B, base, maxU)
		if !ok {
			return fallback(r, caller, fn, args)
		}
		switch outcome {
		case pOK:
			return Tuple{v, Iface{}}
		case pSyntax:
			return Tuple{v, r.numError("ParseUint", s, "ErrSyntax")}
		}
		return Tuple{v, r.numError("ParseUint", s, "ErrRange")}
	})
	reg("strconv.ParseInt", func(r *Run, caller *frame, fn *ssa.Function, args []Value) Value {
		s, base, bitSize, ok := r.parseArgs(args)
		if !ok {
			return fallback(r, caller, fn, args)
		}
		if allConcrete(s.B) {
			cs, _ := concreteString(s)
			v, err := strconv.ParseInt(cs, base, bitSize)
			if err == nil {
				return Tuple{smt.Const(64, uint64(v)), Iface{}}
			}
			ne := err.(*strconv.NumError)
			g := "ErrSyntax"
			if ne.Err == strconv.ErrRange {
				g = "ErrRange"
			}
			return Tuple{smt.Const(64, uint64(v)), r.numError("ParseInt", s, g)}
		}
		res, ok := r.parseIntModel("ParseInt", s, base, bitSize)
		if !ok {
			return fallback(r, caller, fn, args)
		}
		return res
	})
	reg("strconv.Atoi", func(r *Run, caller *frame, fn *ssa.Function, args []Value) Value {
		s, _ := args[0].(Str)
		if allConcrete(s.B) {
			cs, _ := concreteString(s)
			v, err := strconv.Atoi(cs)
			if err == nil {
				return Tuple{smt.Const(64, uint64(int64(v))), Iface{}}
			}
			ne := err.(*strconv.NumError)
			g := "ErrSyntax"
			if ne.Err == strconv.ErrRange {
				g = "ErrRange"
			}
			return Tuple{smt.Const(64, uint64(int64(v))), r.numError("Atoi", s, g)}
		}
		res, ok := r.parseIntModel("Atoi", s, 10, 64)
		if !ok {
			return fallback(r, caller, fn, args)
		}
		return res
	})
}
