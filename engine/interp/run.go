package interp

import (
	"fmt"
	"go/types"
	"golang.org/x/tools/go/ssa"
	"sort"
	"strings"
	"time"

	"symgo/smt"
)

// Decision kinds.
const (
	dkBranch uint8 = iota
	dkMapKey
	dkConcretize
	dkChoose
	dkAssume
	dkAssert
	dkSched
	dkKnown
	dkOther
	dkQuery
)

var dkNames = [...]string{"branch", "mapkey", "concretize", "choose", "assume", "assert", "sched", "known", "other", "query"}

// Decision is one solver-decided (or harness-chosen) outcome on a path. The vector of
// decisions identifies the path; re-executing with the vector as a prefix needs no solver.
type Decision struct {
	Kind uint8
	N    int32
	Alt  int32
	Val  uint64   // dkConcretize: the chosen value (Alt==0) ...
	Excl []uint64 // ... or, for Alt==1, the values excluded so far
}

type Nondet struct {
	Name string // "seq#0"
	Var  *smt.Term
}

// Violation is a failed assertion or an uncaught panic together with a model.
type Violation struct {
	Label   string
	Msg     string
	Model   map[string]uint64 // nondet name -> value
	Choices []int             // vChoose outcomes in order
	Path    []Decision
	Trace   []string
}

type PathResult struct {
	Decisions   int
	Steps       int
	Status      string // "ok", "infeasible", "unsupported", "budget", "inconclusive", "panic", "deadlock", "stop"
	Msg         string
	Violations  []Violation
	Reached     map[string]int // assertion / reach labels -> hits
	AssertsSeen map[string]int
	Known       map[string]bool // known-finding ids whose carved-out violation is satisfiable on this path
	Inconcl     []string
	Observed    []Observation
	Sample      *Sample
	Funcs       map[string]bool
	Intrinsics  map[string]bool
	NewQueries  int
	MaxLoop     int
	ForkSites   map[string]int
	Cross       []CrossQuery
}

// CrossQuery is an assertion query kept as a standalone script for re-checking with other solvers.
type CrossQuery struct {
	Label, Script, Result string
}

// Observation is a harness-declared observable, used to validate engine paths natively.
type Observation struct {
	Name string
	T    *smt.Term
}

// Sample is a concrete instance of a passing path.
type Sample struct {
	Model   map[string]uint64
	Choices []int
	Obs     map[string]uint64
}

type Run struct {
	E *Engine
	B *smt.Builder
	S *smt.Solver

	prefix []Decision
	taken  []Decision
	pc     []*smt.Term
	facts  map[*smt.Term]bool

	shadow    map[*Agg]*Agg
	mshadow   map[*MapObj]*MapObj
	initPhase bool

	nondets []Nondet
	occ     map[string]int
	choices []int
	fresh   int

	steps    int
	maxSteps int
	depth    int
	idc      int

	nthreads int
	threads  []*Thread
	cur      *Thread
	clock    int

	res   *PathResult
	trace []string

	timeN    int // number of time.Now calls so far (for the clock stub)
	lastTime [2]*smt.Term
	clockLog [][2]*smt.Term

	stubState map[string]interface{}

	killed      bool
	mapLocs     map[*MapObj]*Agg
	reverseMaps bool
	preempts    int
	aliases     map[*Agg][]aliasRange
	frozen      map[*Agg]string
	pushed      int // prefixes handed to the queue by this run
	skipPush    int // (retry after a solver crash) prefixes the first attempt already queued // backing arrays the harness declared immutable (shared tables)
	decReg      map[*smt.Term]decEntry
	hornerReg   map[*smt.Term]hornerEntry
	decCache    map[*smt.Term][]*smt.Term
	noFork      int
	noIntrinsic *ssa.Function
	schedN      int
	local       *localCtx
	lastFn      string
	threadErr   interface{}
	syncVC      map[interface{}]*[]int
	accs        map[*Agg]*[]accessRec
}

func (r *Run) newID() int {
	r.idc++
	return r.idc
}

func (r *Run) tracef(format string, args ...interface{}) {
	if r.E.Cfg.Trace {
		r.trace = append(r.trace, fmt.Sprintf(format, args...))
	}
}

// addFact records an asserted literal (and its negation) for solver-free answers later.
func (r *Run) addFact(c *smt.Term) {
	r.harvestRange(c, true)
	switch c.Op {
	case smt.OpNot:
		r.facts[c.A[0]] = false
	case smt.OpAnd:
		r.facts[c] = true
		r.addFact(c.A[0])
		r.addFact(c.A[1])
		return
	default:
		r.facts[c] = true
	}
}

// harvestRange turns an asserted comparison of a variable with a constant into an interval fact.
func (r *Run) harvestRange(c *smt.Term, pos bool) {
	switch c.Op {
	case smt.OpNot:
		r.harvestRange(c.A[0], !pos)
	case smt.OpAnd:
		if pos {
			r.harvestRange(c.A[0], true)
			r.harvestRange(c.A[1], true)
		}
	case smt.OpOr:
		if !pos {
			r.harvestRange(c.A[0], false)
			r.harvestRange(c.A[1], false)
		}
	case smt.OpUlt:
		x, y := c.A[0], c.A[1]
		isVar := func(t *smt.Term) bool { return t.Op == smt.OpVar || (t.Op == smt.OpZExt && t.A[0].Op == smt.OpVar) }
		switch {
		case isVar(x) && y.IsConst():
			if pos { // x < k
				if y.K > 0 {
					r.B.Narrow(x, 0, y.K-1)
				}
			} else { // x >= k
				r.B.Narrow(x, y.K, ^uint64(0))
			}
		case x.IsConst() && isVar(y):
			if pos { // k < y
				r.B.Narrow(y, x.K+1, ^uint64(0))
			} else { // y <= k
				r.B.Narrow(y, 0, x.K)
			}
		}
	case smt.OpEq:
		if !pos {
			return
		}
		x, y := c.A[0], c.A[1]
		if x.IsConst() {
			x, y = y, x
		}
		if y.IsConst() && (x.Op == smt.OpVar || (x.Op == smt.OpZExt && x.A[0].Op == smt.OpVar)) {
			r.B.Narrow(x, y.K, y.K)
		}
	}
}

// known answers c from asserted literals: 1 true, 0 false, -1 unknown.
func (r *Run) known(c *smt.Term) int {
	if c.IsConst() {
		return int(c.K)
	}
	if c.Op == smt.OpNot {
		if v, ok := r.facts[c.A[0]]; ok {
			if v {
				return 0
			}
			return 1
		}
		return -1
	}
	if v, ok := r.facts[c]; ok {
		if v {
			return 1
		}
		return 0
	}
	if c.Op == smt.OpAnd {
		a, b := r.known(c.A[0]), r.known(c.A[1])
		if a == 0 || b == 0 {
			return 0
		}
		if a == 1 && b == 1 {
			return 1
		}
	}
	if c.Op == smt.OpOr {
		a, b := r.known(c.A[0]), r.known(c.A[1])
		if a == 1 || b == 1 {
			return 1
		}
		if a == 0 && b == 0 {
			return 0
		}
	}
	return -1
}

// assumeRaw adds c to the path condition without any feasibility check.
func (r *Run) assumeRaw(c *smt.Term) {
	if c.IsTrue() {
		return
	}
	if r.known(c) == 1 {
		return
	}
	r.pc = append(r.pc, c)
	r.addFact(c)
	r.S.Assert(c)
}

func (r *Run) check(vars []*smt.Term, extra ...*smt.Term) (smt.Result, map[string]uint64) {
	r.res.NewQueries++
	r.res.ForkSites["Q:"+r.lastFn]++
	t0 := time.Now()
	res, m := r.S.Check(vars, extra...)
	if d := time.Since(t0); r.E.Cfg.RecordQueries && d > r.E.Cfg.SlowQuery && r.E.Cfg.SlowQuery > 0 {
		r.E.dumpSlow(r.S.Script(extra...), d, res.String())
	}
	if res == smt.Unknown && r.E.Cfg.FallbackMs > 0 && r.S.Record != nil {
		// second opinion before giving up: the same query as a standalone script on the other solvers
		dirty := r.S.Dirty
		script := r.S.Script(extra...)
		if script != "" && !dirty && r.E.fallbackAllowed() {
			fbStart := time.Now()
			defer func() { r.E.noteFallbackTime(time.Since(fbStart)) }()
			for _, fb := range r.E.Cfg.FallbackSolvers {
				res2, m2 := smt.RunScriptModel(fb[0], fb[1:], script, vars, time.Duration(r.E.Cfg.FallbackMs)*time.Millisecond)
				if res2 == smt.Sat && len(vars) > 0 {
					// a model from another solver is used only if it satisfies the whole path condition and
					// the extra constraints when evaluated by the engine itself
					ok := true
					for _, c := range r.pc {
						if smt.Eval(c, m2) == 0 {
							ok = false
							break
						}
					}
					for _, c := range extra {
						if ok && smt.Eval(c, m2) == 0 {
							ok = false
						}
					}
					if !ok {
						r.E.noteFallback(fb[0], "sat-but-model-rejected")
						continue
					}
				}
				if res2 != smt.Unknown {
					r.E.noteFallback(fb[0], res2.String())
					return res2, m2
				}
			}
		}
	}
	if r.S.Dirty {
		panic(abort{abInconclusive, "solver restarted: " + r.S.LastError})
	}
	return res, m
}

// decide picks among mutually exclusive, jointly exhaustive alternatives.
func (r *Run) decide(kind uint8, alts []*smt.Term) int {
	if r.local != nil && !(kind == dkBranch && len(alts) == 2) {
		panic(mergeAbort{"non-branch decision"})
	}
	// solver-free answers
	nfalse := 0
	for j, a := range alts {
		switch r.known(a) {
		case 1:
			return j
		case 0:
			nfalse++
		}
	}
	if nfalse == len(alts) {
		if r.local != nil {
			panic(mergeAbort{"refuted"})
		}
		panic(abort{abInfeasible, "all alternatives refuted"})
	}
	if r.local != nil {
		if r.localBranch(alts[0]) {
			return 0
		}
		return 1
	}
	if r.noFork > 0 {
		panic(imprecise{"rendering the text would need a fork"})
	}
	i := len(r.taken)
	if i < len(r.prefix) {
		d := r.prefix[i]
		if d.Kind != kind || int(d.N) != len(alts) {
			panic(abort{abUnsupported, fmt.Sprintf("non-deterministic re-execution at decision %d: recorded %s/%d, now %s/%d",
				i, dkNames[d.Kind], d.N, dkNames[kind], len(alts))})
		}
		r.taken = append(r.taken, d)
		r.assumeRaw(alts[d.Alt])
		return int(d.Alt)
	}
	var feas []int
	for j, a := range alts {
		if r.known(a) == 0 {
			continue
		}
		// if every other alternative is refuted, this one must hold
		if len(feas) == 0 && j == len(alts)-1 {
			feas = append(feas, j)
			break
		}
		res, _ := r.check(nil, a)
		switch res {
		case smt.Sat:
			feas = append(feas, j)
		case smt.Unknown:
			r.E.noteUnknownFeas()
			feas = append(feas, j)
		}
	}
	if len(feas) == 0 {
		panic(abort{abInfeasible, "no feasible alternative"})
	}
	if len(feas) > 1 {
		r.res.ForkSites[r.lastFn] += len(feas) - 1
	}
	for _, j := range feas[1:] {
		np := make([]Decision, len(r.taken)+1)
		copy(np, r.taken)
		np[len(r.taken)] = Decision{Kind: kind, N: int32(len(alts)), Alt: int32(j)}
		r.pushPrefix(np)
	}
	r.taken = append(r.taken, Decision{Kind: kind, N: int32(len(alts)), Alt: int32(feas[0])})
	r.assumeRaw(alts[feas[0]])
	return feas[0]
}

// branch decides a boolean condition.
func (r *Run) branch(c *smt.Term) bool {
	if c.IsConst() {
		return c.K == 1
	}
	return r.decide(dkBranch, []*smt.Term{c, r.B.Not(c)}) == 0
}

// choose forks n ways on a harness-level choice (no solver).
func (r *Run) choose(n int) int {
	if r.local != nil {
		panic(mergeAbort{"side effect in merged call"})
	}
	if n <= 1 {
		return 0
	}
	i := len(r.taken)
	if i < len(r.prefix) {
		d := r.prefix[i]
		if d.Kind != dkChoose || int(d.N) != n {
			panic(abort{abUnsupported, "non-deterministic re-execution at choose"})
		}
		r.taken = append(r.taken, d)
		return int(d.Alt)
	}
	for j := 1; j < n; j++ {
		np := make([]Decision, len(r.taken)+1)
		copy(np, r.taken)
		np[len(r.taken)] = Decision{Kind: dkChoose, N: int32(n), Alt: int32(j)}
		r.pushPrefix(np)
	}
	r.taken = append(r.taken, Decision{Kind: dkChoose, N: int32(n), Alt: 0})
	return 0
}

// assume adds c; the path is dropped if that makes it infeasible.
func (r *Run) assume(c *smt.Term) {
	if r.local != nil {
		panic(mergeAbort{"side effect in merged call"})
	}
	switch r.known(c) {
	case 1:
		return
	case 0:
		panic(abort{abInfeasible, "assumption refuted"})
	}
	i := len(r.taken)
	if i < len(r.prefix) {
		d := r.prefix[i]
		if d.Kind != dkAssume {
			panic(abort{abUnsupported, "non-deterministic re-execution at assume"})
		}
		r.taken = append(r.taken, d)
		r.assumeRaw(c)
		return
	}
	res, _ := r.check(nil, c)
	if res == smt.Unsat {
		panic(abort{abInfeasible, "assumption infeasible"})
	}
	if res == smt.Unknown {
		r.E.noteUnknownFeas()
	}
	r.taken = append(r.taken, Decision{Kind: dkAssume, N: 1})
	r.assumeRaw(c)
}

// concretize picks a concrete value for t, forking over all feasible values.
func (r *Run) concretize(t *smt.Term, why string) uint64 {
	if r.local != nil {
		panic(mergeAbort{"side effect in merged call"})
	}
	if t.IsConst() {
		return t.K
	}
	i := len(r.taken)
	var excl []uint64
	if i < len(r.prefix) {
		d := r.prefix[i]
		if d.Kind != dkConcretize {
			panic(abort{abUnsupported, "non-deterministic re-execution at concretize"})
		}
		if d.Alt == 0 {
			r.taken = append(r.taken, d)
			r.assumeRaw(r.B.Eq(t, smt.Const(t.W, d.Val)))
			return d.Val
		}
		excl = d.Excl
	}
	// exclude the values other paths own, then ask for one more
	for _, x := range excl {
		r.assumeRaw(r.B.Ne(t, smt.Const(t.W, x)))
	}
	if len(excl) > r.E.Cfg.MaxConcretize {
		panic(abort{abBudget, fmt.Sprintf("concretize(%s): more than %d values", why, r.E.Cfg.MaxConcretize)})
	}
	tmp := r.B.Var(t.W, fmt.Sprintf("cz_%d", len(r.taken)))
	res, m := r.check([]*smt.Term{tmp}, r.B.Eq(tmp, t))
	switch res {
	case smt.Unsat:
		panic(abort{abInfeasible, "concretize: no further value"})
	case smt.Unknown:
		panic(abort{abInconclusive, "concretize: solver unknown (" + why + ")"})
	}
	v := m[tmp.Name]
	// enumerate a batch of further values right away, so that the alternatives can be explored in
	// parallel instead of being discovered one path after the other
	found := []uint64{v}
	more := true
	for len(found) < 16 {
		ex := r.B.Eq(tmp, t)
		for _, f := range found {
			ex = r.B.And(ex, r.B.Ne(t, smt.Const(t.W, f)))
		}
		res2, m2 := r.check([]*smt.Term{tmp}, ex)
		if res2 != smt.Sat {
			more = res2 != smt.Unsat
			break
		}
		found = append(found, m2[tmp.Name])
	}
	for _, f := range found[1:] {
		np := make([]Decision, len(r.taken)+1)
		copy(np, r.taken)
		np[len(r.taken)] = Decision{Kind: dkConcretize, N: 2, Alt: 0, Val: f, Excl: excl}
		r.pushPrefix(np)
	}
	if more {
		ne := append(append([]uint64(nil), excl...), found...)
		np := make([]Decision, len(r.taken)+1)
		copy(np, r.taken)
		np[len(r.taken)] = Decision{Kind: dkConcretize, N: 2, Alt: 1, Excl: ne}
		r.pushPrefix(np)
	}
	r.taken = append(r.taken, Decision{Kind: dkConcretize, N: 2, Alt: 0, Val: v})
	r.assumeRaw(r.B.Eq(t, smt.Const(t.W, v)))
	return v
}

// nondet returns the variable for the next occurrence of a named nondeterministic input.
func (r *Run) nondet(name string, w uint8) *smt.Term {
	if r.local != nil {
		panic(mergeAbort{"nondet in merged call"})
	}
	k := r.occ[name]
	r.occ[name] = k + 1
	full := fmt.Sprintf("%s#%d", name, k)
	v := r.B.Var(w, "n_"+sanitize(full))
	r.nondets = append(r.nondets, Nondet{Name: full, Var: v})
	return v
}

// freshVar returns an engine-internal variable (digits, stub results).
func (r *Run) freshVar(w uint8, what string) *smt.Term {
	if r.local != nil {
		panic(mergeAbort{"fresh variable in merged call"})
	}
	r.fresh++
	return r.B.Var(w, fmt.Sprintf("f_%s_%d", sanitize(what), r.fresh))
}

func sanitize(s string) string {
	var sb strings.Builder
	for i := 0; i < len(s); i++ {
		c := s[i]
		switch {
		case c >= 'a' && c <= 'z', c >= 'A' && c <= 'Z', c >= '0' && c <= '9', c == '_':
			sb.WriteByte(c)
		case c == '#':
			sb.WriteString("__")
		default:
			sb.WriteByte('_')
		}
	}
	return sb.String()
}

func (r *Run) allVars() []*smt.Term { return r.B.Vars }

func (r *Run) modelToNames(m map[string]uint64) map[string]uint64 {
	out := map[string]uint64{}
	for _, n := range r.nondets {
		out[n.Name] = m[n.Var.Name]
	}
	for _, v := range r.B.Vars {
		if strings.HasPrefix(v.Name, "f_") {
			out["~"+v.Name] = m[v.Name]
		}
	}
	return out
}

func (r *Run) recordViolation(label, msg string, model map[string]uint64) {
	v := Violation{Label: label, Msg: msg, Model: r.modelToNames(model), Choices: append([]int(nil), r.choices...),
		Path: append([]Decision(nil), r.taken...), Trace: append([]string(nil), r.trace...)}
	r.res.Violations = append(r.res.Violations, v)
}

// assertLabel checks a harness assertion.
func (r *Run) assertLabel(c *smt.Term, label string) {
	if r.local != nil {
		panic(mergeAbort{"side effect in merged call"})
	}
	if !r.E.labelActive(label) {
		return
	}
	r.res.AssertsSeen[label]++
	switch r.known(c) {
	case 1:
		return
	}
	i := len(r.taken)
	if i < len(r.prefix) {
		d := r.prefix[i]
		if d.Kind != dkAssert {
			panic(abort{abUnsupported, "non-deterministic re-execution at assert " + label})
		}
		r.taken = append(r.taken, d)
		if d.Alt == 2 {
			panic(abort{abStop, "assertion cannot hold"})
		}
		r.assumeRaw(c)
		return
	}
	res, m := r.check(r.allVars(), r.B.Not(c))
	if r.E.Cfg.CrossCheck > 0 && r.S.Record != nil && res != smt.Unknown && r.E.wantCross() {
		r.res.Cross = append(r.res.Cross, CrossQuery{Label: label, Script: r.S.Script(r.B.Not(c)), Result: res.String()})
	}
	switch res {
	case smt.Unsat:
		r.taken = append(r.taken, Decision{Kind: dkAssert, N: 3, Alt: 0})
		r.assumeRaw(c)
		return
	case smt.Unknown:
		r.res.Inconcl = append(r.res.Inconcl, "assert "+label+": solver unknown")
		r.taken = append(r.taken, Decision{Kind: dkAssert, N: 3, Alt: 0})
		r.assumeRaw(c)
		return
	}
	r.recordViolation(label, "assertion can fail", m)
	// continue on the part of the path where the assertion holds, if any
	if c.IsFalse() {
		r.taken = append(r.taken, Decision{Kind: dkAssert, N: 3, Alt: 2})
		panic(abort{abStop, "assertion cannot hold"})
	}
	res2, _ := r.check(nil, c)
	if res2 == smt.Unsat {
		r.taken = append(r.taken, Decision{Kind: dkAssert, N: 3, Alt: 2})
		panic(abort{abStop, "assertion cannot hold"})
	}
	r.taken = append(r.taken, Decision{Kind: dkAssert, N: 3, Alt: 1})
	r.assumeRaw(c)
}

// knownFinding handles vKnown(id, cond): cond is expected to be violable (a recorded defect).
func (r *Run) knownFinding(id string, c *smt.Term) {
	if r.local != nil {
		panic(mergeAbort{"side effect in merged call"})
	}
	switch r.known(c) {
	case 1:
		return
	}
	i := len(r.taken)
	if i < len(r.prefix) {
		d := r.prefix[i]
		if d.Kind != dkKnown {
			panic(abort{abUnsupported, "non-deterministic re-execution at vKnown " + id})
		}
		r.taken = append(r.taken, d)
		if d.Alt == 2 {
			panic(abort{abStop, "known finding: condition cannot hold"})
		}
		r.assumeRaw(c)
		return
	}
	res, _ := r.check(nil, r.B.Not(c))
	if res == smt.Sat {
		r.res.Known[id] = true
	}
	if res == smt.Unknown {
		r.res.Inconcl = append(r.res.Inconcl, "known "+id+": solver unknown")
	}
	alt := int32(0)
	if res == smt.Sat {
		res2 := smt.Unsat
		if !c.IsFalse() {
			res2, _ = r.check(nil, c)
		}
		if res2 == smt.Unsat {
			r.taken = append(r.taken, Decision{Kind: dkKnown, N: 3, Alt: 2})
			panic(abort{abStop, "known finding: condition cannot hold"})
		}
		alt = 1
	}
	r.taken = append(r.taken, Decision{Kind: dkKnown, N: 3, Alt: alt})
	r.assumeRaw(c)
}

// fault builds the panic value for a Go run-time error.
func (r *Run) fault(msg, detail string) targetPanic {
	if detail != "" {
		msg = msg + " (" + detail + ")"
	}
	return targetPanic{v: Iface{T: r.E.runtimeErrType, V: mkStr("runtime error: " + msg)}, fault: msg}
}

// ---- structural equality ---------------------------------------------------------

func (r *Run) strEq(a, b Str) *smt.Term {
	if len(a.B) != len(b.B) {
		return smt.False
	}
	res := smt.True
	for i := range a.B {
		res = r.B.And(res, r.B.Eq(a.B[i], b.B[i]))
		if res.IsFalse() {
			return res
		}
	}
	return res
}

func ptrSame(a, b Ptr) bool {
	if a.V != nil || b.V != nil {
		if a.V == nil || b.V == nil {
			// compare view with natural pointer by root/offset
			var nat Ptr
			var vw *View
			if a.V != nil {
				vw, nat = a.V, b
			} else {
				vw, nat = b.V, a
			}
			if nat.A == nil {
				return false
			}
			root, off := rootOf(nat.A, nat.I)
			return root == vw.Root && off == vw.Off
		}
		return a.V.Root == b.V.Root && a.V.Off == b.V.Off
	}
	return a.A == b.A && (a.A == nil || a.I == b.I)
}

func (r *Run) valueEq(a, b Value) *smt.Term {
	switch a := a.(type) {
	case *smt.Term:
		return r.B.Eq(a, b.(*smt.Term))
	case Float:
		return smt.Bool(a == b.(Float))
	case Str:
		return r.strEq(a, b.(Str))
	case Ptr:
		bp := b.(Ptr)
		if a.SI != nil || bp.SI != nil {
			panic(unsupported("comparison of symbolic-index pointers"))
		}
		return smt.Bool(ptrSame(a, bp))
	case Iface:
		bi := b.(Iface)
		if a.T == nil || bi.T == nil {
			return smt.Bool(a.T == nil && bi.T == nil)
		}
		if !types.Identical(a.T, bi.T) {
			return smt.False
		}
		if !types.Comparable(a.T) {
			panic(r.fault("comparing uncomparable type "+a.T.String(), ""))
		}
		return r.valueEq(a.V, bi.V)
	case *Agg:
		ba := b.(*Agg)
		ea, eb := r.rd(a), r.rd(ba)
		res := smt.True
		for i := range ea {
			// blank fields are ignored by Go, but they are rare; compare all.
			res = r.B.And(res, r.valueEq(ea[i], eb[i]))
			if res.IsFalse() {
				return res
			}
		}
		return res
	case *MapObj:
		// only comparison with nil is legal
		bm, _ := b.(*MapObj)
		return smt.Bool(a == nil && bm == nil || a == bm)
	case Slice:
		bs := b.(Slice)
		return smt.Bool(a.IsNil() && bs.IsNil())
	case *Closure:
		bc, _ := b.(*Closure)
		return smt.Bool(a == nil && bc == nil)
	case Chan:
		return smt.Bool(a == b.(Chan))
	case Poison:
		panic(unsupported("comparison involving unmodelled value: " + a.Why))
	}
	if _, ok := b.(Poison); ok {
		panic(unsupported("comparison involving unmodelled value"))
	}
	panic(unsupported(fmt.Sprintf("valueEq on %T", a)))
}

func sortedKeys(m map[string]int) []string {
	ks := make([]string, 0, len(m))
	for k := range m {
		ks = append(ks, k)
	}
	sort.Strings(ks)
	return ks
}

// pushPrefix queues an alternative for later exploration; a retried run does not queue again what
// its first attempt already did (re-execution is deterministic, so the order is the same).
func (r *Run) pushPrefix(np []Decision) {
	r.pushed++
	if r.pushed <= r.skipPush {
		return
	}
	r.E.push(np)
}
