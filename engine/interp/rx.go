package interp

import (
	"fmt"
	"go/types"
	"regexp"
	"regexp/syntax"
	"sort"
	"strings"
	"sync"

	"symgo/smt"

	"golang.org/x/tools/go/ssa"
)

// Regular expressions are summarised per call by the REAL regexp package (DESIGN.md 2.5):
// Go's matcher looks at an ASCII subject byte only through the rune sets of the program (and the
// word-character test of \b), so two ASCII subjects of equal length whose bytes fall in the same
// classes position by position have identical match indices. For a subject with symbolic bytes we
// enumerate the feasible class vectors, run the real regexp on one representative each, group the
// vectors by result, and fork once per distinct result.

type rxClasses struct {
	classOf [128]uint8 // class id of every ASCII byte
	rep     []byte     // a representative byte per class
	members [][]byte   // all bytes per class
	ranges  [][][2]byte
}

var rxCache sync.Map // *regexp.Regexp -> *rxClasses

func classesOf(re *regexp.Regexp) *rxClasses {
	if c, ok := rxCache.Load(re); ok {
		return c.(*rxClasses)
	}
	parsed, err := syntax.Parse(re.String(), syntax.Perl)
	if err != nil {
		panic(unsupported("regexp: cannot re-parse pattern: " + err.Error()))
	}
	// signature of a byte: membership in every rune set mentioned by the pattern
	var sets [][]rune // each as pairs lo,hi
	var walk func(n *syntax.Regexp)
	foldPair := func(r rune) []rune {
		out := []rune{r, r}
		if 'a' <= r && r <= 'z' {
			out = append(out, r-32, r-32)
		}
		if 'A' <= r && r <= 'Z' {
			out = append(out, r+32, r+32)
		}
		return out
	}
	walk = func(n *syntax.Regexp) {
		switch n.Op {
		case syntax.OpLiteral:
			for _, ru := range n.Rune {
				if n.Flags&syntax.FoldCase != 0 {
					sets = append(sets, foldPair(ru))
				} else {
					sets = append(sets, []rune{ru, ru})
				}
			}
		case syntax.OpCharClass:
			sets = append(sets, n.Rune)
		case syntax.OpAnyCharNotNL, syntax.OpBeginLine, syntax.OpEndLine:
			sets = append(sets, []rune{'\n', '\n'})
		case syntax.OpWordBoundary, syntax.OpNoWordBoundary:
			sets = append(sets, []rune{'0', '9', 'A', 'Z', '_', '_', 'a', 'z'})
		}
		for _, s := range n.Sub {
			walk(s)
		}
	}
	walk(parsed)
	sig := func(b byte) string {
		var sb strings.Builder
		for _, s := range sets {
			in := byte('0')
			for i := 0; i+1 < len(s); i += 2 {
				if rune(b) >= s[i] && rune(b) <= s[i+1] {
					in = '1'
					break
				}
			}
			sb.WriteByte(in)
		}
		return sb.String()
	}
	c := &rxClasses{}
	ids := map[string]uint8{}
	for b := 0; b < 128; b++ {
		s := sig(byte(b))
		id, ok := ids[s]
		if !ok {
			id = uint8(len(c.rep))
			ids[s] = id
			c.rep = append(c.rep, byte(b))
			c.members = append(c.members, nil)
		}
		c.classOf[b] = id
		c.members[id] = append(c.members[id], byte(b))
	}
	// prefer printable, unremarkable representatives
	for id, ms := range c.members {
		for _, m := range ms {
			if m >= 'a' && m <= 'z' || m >= '0' && m <= '9' {
				c.rep[id] = m
				break
			}
		}
		// contiguous ranges
		var rs [][2]byte
		for _, m := range ms {
			if n := len(rs); n > 0 && rs[n-1][1]+1 == m {
				rs[n-1][1] = m
			} else {
				rs = append(rs, [2]byte{m, m})
			}
		}
		c.ranges = append(c.ranges, rs)
	}
	rxCache.Store(re, c)
	return c
}

// inClass is the condition "byte b belongs to class id".
func (r *Run) inClass(c *rxClasses, b *smt.Term, id uint8) *smt.Term {
	B := r.B
	res := smt.False
	for _, rg := range c.ranges[id] {
		var t *smt.Term
		if rg[0] == rg[1] {
			t = B.Eq(b, smt.Const(8, uint64(rg[0])))
		} else {
			t = B.And(B.Uge(b, smt.Const(8, uint64(rg[0]))), B.Ule(b, smt.Const(8, uint64(rg[1]))))
		}
		res = B.Or(res, t)
	}
	return res
}

const rxMaxVectors = 3_000_000

// rxMatch runs re.FindAllStringSubmatchIndex(subject, n) for a subject with symbolic bytes and
// returns the (concrete) index arrays, forking once per distinct result.
func (r *Run) rxMatch(re *regexp.Regexp, subj []*smt.Term, n int) [][]int {
	buf := make([]byte, len(subj))
	var sym []int
	for i, b := range subj {
		if b.IsConst() {
			buf[i] = byte(b.K)
		} else {
			sym = append(sym, i)
		}
	}
	if len(sym) == 0 {
		return re.FindAllStringSubmatchIndex(string(buf), n)
	}
	cl := classesOf(re)
	// ASCII-only soundness condition: enforced, not assumed
	for _, i := range sym {
		if r.branch(r.B.Uge(subj[i], smt.Const(8, 0x80))) {
			panic(abort{abUnsupported, "regexp subject byte may be >= 0x80 (outside the encodable domain; harness must assume ASCII)"})
		}
	}
	// feasible classes per symbolic position
	feas := make([][]uint8, len(sym))
	total := 1
	for k, i := range sym {
		for id := range cl.rep {
			c := r.inClass(cl, subj[i], uint8(id))
			switch r.known(c) {
			case 1:
				feas[k] = []uint8{uint8(id)}
			case 0:
				continue
			default:
				if r.query(c) {
					feas[k] = append(feas[k], uint8(id))
				}
			}
			if r.known(c) == 1 {
				break
			}
		}
		if len(feas[k]) == 0 {
			panic(abort{abInfeasible, "regexp: no feasible class"})
		}
		total *= len(feas[k])
		if total > rxMaxVectors {
			panic(abort{abUnsupported, fmt.Sprintf("regexp subject has too many symbolic bytes (%d positions, > %d class vectors)", len(sym), rxMaxVectors)})
		}
	}
	// enumerate class vectors, run the real regexp, build a reduced decision diagram bottom-up.
	// node ids: leaves are result ids; inner nodes are canonicalised tuples of children.
	results := []string{}
	resultIdx := map[string]int{}
	resultVal := [][][]int{}
	type nodeKey string
	nodeIDs := map[nodeKey]int{}
	type node struct {
		pos  int
		kids []int // per feasible class of sym[pos]
	}
	var nodes []node
	var build func(k int) int
	build = func(k int) int {
		if k == len(sym) {
			m := re.FindAllStringSubmatchIndex(string(buf), n)
			key := fmt.Sprint(m)
			id, ok := resultIdx[key]
			if !ok {
				id = len(results)
				resultIdx[key] = id
				results = append(results, key)
				resultVal = append(resultVal, m)
			}
			return -1 - id // leaves are negative
		}
		kids := make([]int, len(feas[k]))
		same := true
		for j, id := range feas[k] {
			buf[sym[k]] = cl.rep[id]
			kids[j] = build(k + 1)
			if kids[j] != kids[0] {
				same = false
			}
		}
		if same {
			return kids[0] // this position does not matter
		}
		key := nodeKey(fmt.Sprint(k, kids))
		if id, ok := nodeIDs[key]; ok {
			return id
		}
		id := len(nodes)
		nodes = append(nodes, node{k, kids})
		nodeIDs[key] = id
		return id
	}
	root := build(0)
	if len(results) == 1 {
		return resultVal[0]
	}
	// condition of each result: paths in the diagram
	memo := map[[2]int]*smt.Term{}
	var cond func(nd, res int) *smt.Term
	cond = func(nd, res int) *smt.Term {
		if nd < 0 {
			return smt.Bool(-1-nd == res)
		}
		mk := [2]int{nd, res}
		if t, ok := memo[mk]; ok {
			return t
		}
		nn := nodes[nd]
		t := smt.False
		for j, kid := range nn.kids {
			sub := cond(kid, res)
			if sub.IsFalse() {
				continue
			}
			t = r.B.Or(t, r.B.And(r.inClass(cl, subj[sym[nn.pos]], feas[nn.pos][j]), sub))
		}
		memo[mk] = t
		return t
	}
	alts := make([]*smt.Term, len(results))
	for i := range results {
		alts[i] = cond(root, i)
	}
	ch := r.decide(dkOther, alts)
	return resultVal[ch]
}

// query asks the solver whether c is feasible and records the answer in the decision vector, so
// that re-execution gets the same answer without the solver (an unknown counts as feasible).
func (r *Run) query(c *smt.Term) bool {
	if r.local != nil {
		panic(mergeAbort{"solver use in merged call"})
	}
	i := len(r.taken)
	if i < len(r.prefix) {
		d := r.prefix[i]
		if d.Kind != dkQuery {
			panic(abort{abUnsupported, "non-deterministic re-execution at query"})
		}
		r.taken = append(r.taken, d)
		return d.Alt == 1
	}
	res, _ := r.check(nil, c)
	alt := int32(1)
	if res == smt.Unsat {
		alt = 0
	}
	r.taken = append(r.taken, Decision{Kind: dkQuery, N: 2, Alt: alt})
	return alt == 1
}

func (r *Run) regexpOf(v Value) *regexp.Regexp {
	p, ok := v.(Ptr)
	if !ok || p.A == nil {
		panic(unsupported("regexp method on nil or unmodelled *Regexp"))
	}
	no, ok := r.rd(p.A)[p.I].(*nativeObj)
	if !ok || no.kind != "regexp" {
		panic(unsupported("regexp method on a Regexp the engine did not compile"))
	}
	return no.data.(*regexp.Regexp)
}

func (r *Run) newIntSlice(vals []int) Slice {
	a := newArray(types.Typ[types.Int], len(vals))
	a.ID = r.newID()
	for i, v := range vals {
		a.E[i] = smt.Const(64, uint64(int64(v)))
	}
	return Slice{A: a, Len: len(vals), Cap: len(vals)}
}

func (r *Run) newStrSlice(vals []Str) Slice {
	a := newArray(types.Typ[types.String], len(vals))
	a.ID = r.newID()
	for i, v := range vals {
		a.E[i] = v
	}
	return Slice{A: a, Len: len(vals), Cap: len(vals)}
}

func submatchStrings(subj []*smt.Term, m []int) []Str {
	out := make([]Str, len(m)/2)
	for i := range out {
		if m[2*i] >= 0 {
			out[i] = Str{subj[m[2*i]:m[2*i+1]:m[2*i+1]]}
		}
	}
	return out
}

func init() {
	reg("(*regexp.Regexp).FindStringSubmatchIndex", func(r *Run, _ *frame, _ *ssa.Function, args []Value) Value {
		ms := r.rxMatch(r.regexpOf(args[0]), r.bytesOf(args[1]), 1)
		if len(ms) == 0 {
			return Slice{}
		}
		return r.newIntSlice(ms[0])
	})
	reg("(*regexp.Regexp).FindStringSubmatch", func(r *Run, _ *frame, _ *ssa.Function, args []Value) Value {
		subj := r.bytesOf(args[1])
		ms := r.rxMatch(r.regexpOf(args[0]), subj, 1)
		if len(ms) == 0 {
			return Slice{}
		}
		return r.newStrSlice(submatchStrings(subj, ms[0]))
	})
	reg("(*regexp.Regexp).FindAllStringSubmatch", func(r *Run, _ *frame, _ *ssa.Function, args []Value) Value {
		subj := r.bytesOf(args[1])
		n := cint(args[2])
		ms := r.rxMatch(r.regexpOf(args[0]), subj, n)
		if len(ms) == 0 {
			return Slice{}
		}
		st := types.NewSlice(types.Typ[types.String])
		a := newArray(st, len(ms))
		a.ID = r.newID()
		for i, m := range ms {
			a.E[i] = r.newStrSlice(submatchStrings(subj, m))
		}
		return Slice{A: a, Len: len(ms), Cap: len(ms)}
	})
	reg("(*regexp.Regexp).MatchString", func(r *Run, _ *frame, _ *ssa.Function, args []Value) Value {
		ms := r.rxMatch(r.regexpOf(args[0]), r.bytesOf(args[1]), 1)
		return smt.Bool(len(ms) > 0)
	})
	reg("(*regexp.Regexp).String", func(r *Run, _ *frame, _ *ssa.Function, args []Value) Value {
		return mkStr(r.regexpOf(args[0]).String())
	})
}

var _ = sort.Ints
