package interp

import (
	"fmt"
	"go/types"
	"strconv"
	"strings"

	"symgo/smt"
)

// imprecise is raised inside the formatter when the text cannot be produced exactly
// without forking; fmt.Errorf turns it into a poisoned message, Sprintf forks or fails.
type imprecise struct{ why string }

type fmtOpts struct {
	allowFork bool // may fork (relational decimal etc.)
}

type verbSpec struct {
	verb                          byte
	plus, minus, sharp, zero, spc bool
	width, prec                   int
	hasWidth, hasPrec             bool
}

func pow10(n int) uint64 {
	p := uint64(1)
	for i := 0; i < n; i++ {
		p *= 10
	}
	return p
}

// decimal renders an unsigned w-bit magnitude in base 10 (relational encoding for symbolic values).
func (r *Run) decimal(x *smt.Term, o fmtOpts) []*smt.Term {
	if x.IsConst() {
		return mkStr(strconv.FormatUint(x.K, 10)).B
	}
	if ds, ok := r.decCache[x]; ok {
		return ds
	}
	if !o.allowFork {
		panic(imprecise{"symbolic decimal"})
	}
	// a number that was itself parsed from digit bytes prints as those digits (leading zeros
	// stripped): format(parse(d)) = d, recognised syntactically instead of left to the solver
	if h := r.hornerOf(x); h != nil {
		ds := h
		for len(ds) > 1 && r.branch(r.B.Eq(ds[0], smt.Const(8, '0'))) {
			ds = ds[1:]
		}
		return ds
	}
	B := r.B
	maxd := map[uint8]int{8: 3, 16: 5, 32: 10, 64: 20}[x.W]
	if maxd == 0 {
		panic(unsupported("decimal of odd width"))
	}
	x64 := B.ZExt(x, 64)
	alts := make([]*smt.Term, maxd)
	for n := 1; n <= maxd; n++ {
		var c *smt.Term = smt.True
		if n > 1 {
			c = B.Uge(x64, smt.Const(64, pow10(n-1)))
		}
		if n < 20 && (n < maxd || x.W == 64) {
			c = B.And(c, B.Ult(x64, smt.Const(64, pow10(n))))
		}
		alts[n-1] = c
	}
	n := r.decide(dkOther, alts) + 1
	ds := make([]*smt.Term, n) // most significant first
	sum := smt.Const(64, 0)
	target := x64
	top := n
	if n == 20 {
		// leading digit is 1; the remaining 19 digits encode x - 10^19 without overflow
		ds[0] = smt.Const(8, '1')
		target = B.Sub(x64, smt.Const(64, pow10(19)))
		top = 19
	}
	for i := 0; i < top; i++ { // i = power of ten
		// the digit CHARACTER is the fresh variable (so that interval facts '0'..'9' fold later
		// comparisons with delimiters); its value is c - '0'
		c := r.freshVar(8, "dig")
		r.assumeRaw(B.And(B.Uge(c, smt.Const(8, '0')), B.Ule(c, smt.Const(8, '9'))))
		d := B.Sub(c, smt.Const(8, '0'))
		sum = B.Add(sum, B.Mul(B.ZExt(d, 64), smt.Const(64, pow10(i))))
		ds[n-1-i] = c
	}
	r.assumeRaw(B.Eq(sum, target))
	if r.decReg == nil {
		r.decReg = map[*smt.Term]decEntry{}
	}
	for i, d := range ds {
		r.decReg[d] = decEntry{x: x, i: i, n: n}
	}
	if r.decCache == nil {
		r.decCache = map[*smt.Term][]*smt.Term{}
	}
	r.decCache[x] = ds
	return ds
}

// radixPow2 renders x in base 8 or 16 (bit slicing); symbolic values fork on the digit count.
func (r *Run) radixPow2(x *smt.Term, bitsPer uint8, upper bool, o fmtOpts) []*smt.Term {
	base := 1 << bitsPer
	if x.IsConst() {
		s := strconv.FormatUint(x.K, base)
		if upper {
			s = strings.ToUpper(s)
		}
		return mkStr(s).B
	}
	if !o.allowFork {
		panic(imprecise{"symbolic number"})
	}
	B := r.B
	maxd := (int(x.W) + int(bitsPer) - 1) / int(bitsPer)
	alts := make([]*smt.Term, maxd)
	for n := 1; n <= maxd; n++ {
		c := smt.True
		if n > 1 {
			c = B.Uge(x, smt.Const(x.W, uint64(1)<<(uint(bitsPer)*uint(n-1))))
		}
		if uint(bitsPer)*uint(n) < uint(x.W) {
			c = B.And(c, B.Ult(x, smt.Const(x.W, uint64(1)<<(uint(bitsPer)*uint(n)))))
		}
		alts[n-1] = c
	}
	n := r.decide(dkOther, alts) + 1
	out := make([]*smt.Term, n)
	for i := 0; i < n; i++ {
		lo := uint8(i) * bitsPer
		hi := lo + bitsPer - 1
		if hi >= x.W {
			hi = x.W - 1
		}
		d := B.ZExt(B.Extract(x, hi, lo), 8)
		var ch *smt.Term
		if base <= 10 {
			ch = B.Add(d, smt.Const(8, '0'))
		} else {
			a := byte('a')
			if upper {
				a = 'A'
			}
			ch = B.Ite(B.Ult(d, smt.Const(8, 10)), B.Add(d, smt.Const(8, '0')), B.Add(d, smt.Const(8, uint64(a-10))))
		}
		out[n-1-i] = ch
	}
	return out
}

func pad(body []*smt.Term, v verbSpec, numeric bool, signLen int) []*smt.Term {
	if !v.hasWidth || len(body) >= v.width {
		return body
	}
	n := v.width - len(body)
	fill := byte(' ')
	if v.zero && !v.minus && numeric {
		fill = '0'
	}
	padding := make([]*smt.Term, n)
	for i := range padding {
		padding[i] = smt.Const(8, uint64(fill))
	}
	if v.minus {
		return append(append([]*smt.Term(nil), body...), padding...)
	}
	if fill == '0' && signLen > 0 {
		out := append([]*smt.Term(nil), body[:signLen]...)
		out = append(out, padding...)
		return append(out, body[signLen:]...)
	}
	return append(padding, body...)
}

// fmtInt formats an integer term under verb v.
func (r *Run) fmtInt(x *smt.Term, signed bool, v verbSpec, o fmtOpts) []*smt.Term {
	B := r.B
	var sign []*smt.Term
	mag := x
	if signed {
		neg := B.Slt(x, smt.Const(x.W, 0))
		isNeg := false
		if neg.IsConst() {
			isNeg = neg.K == 1
		} else {
			if !o.allowFork {
				panic(imprecise{"symbolic sign"})
			}
			isNeg = r.branch(neg)
		}
		if isNeg {
			sign = []*smt.Term{smt.Const(8, '-')}
			mag = B.Neg(x)
		} else if x.Op == smt.OpSExt {
			mag = B.ZExt(x.A[0], x.W) // non-negative on this path: sign extension adds zeros
		}
	}
	if len(sign) == 0 && v.plus {
		sign = []*smt.Term{smt.Const(8, '+')}
	}
	var digs []*smt.Term
	switch v.verb {
	case 'd', 'v':
		digs = r.decimal(mag, o)
	case 'x':
		digs = r.radixPow2(mag, 4, false, o)
		if v.sharp {
			digs = append(mkStr("0x").B, digs...)
		}
	case 'X':
		digs = r.radixPow2(mag, 4, true, o)
		if v.sharp {
			digs = append(mkStr("0X").B, digs...)
		}
	case 'o':
		digs = r.radixPow2(mag, 3, false, o)
		if v.sharp {
			digs = append(mkStr("0").B, digs...)
		}
	case 'b':
		digs = r.radixPow2(mag, 1, false, o)
	case 'c':
		return pad(r.runeToString(B.Resize(x, 32, signed)).B, v, false, 0)
	case 'q':
		if x.IsConst() {
			return pad(mkStr(strconv.QuoteRune(rune(x.K))).B, v, false, 0)
		}
		panic(imprecise{"%q of symbolic rune"})
	default:
		return mkStr(fmt.Sprintf("%%!%c(int)", v.verb)).B
	}
	if v.hasPrec {
		for len(digs) < v.prec {
			digs = append([]*smt.Term{smt.Const(8, '0')}, digs...)
		}
	}
	body := append(append([]*smt.Term(nil), sign...), digs...)
	return pad(body, v, true, len(sign))
}

// callStringMethod calls a niladic string method (Error/String) if typ has one.
func (r *Run) callStringMethod(typ types.Type, recv Value, name string) (Str, bool) {
	ms := r.E.Prog.MethodSets.MethodSet(typ)
	for i := 0; i < ms.Len(); i++ {
		sel := ms.At(i)
		if sel.Obj().Name() != name {
			continue
		}
		sig := sel.Type().(*types.Signature)
		if sig.Params().Len() != 0 || sig.Results().Len() != 1 || !isString(sig.Results().At(0).Type()) {
			return Str{}, false
		}
		fn := r.E.Prog.MethodValue(sel)
		if fn == nil {
			return Str{}, false
		}
		res := r.callFn(fn, []Value{recv}, nil, nil)
		switch s := res.(type) {
		case Str:
			return s, true
		case Poison:
			panic(imprecise{"method text unmodelled: " + s.Why})
		}
		return Str{}, false
	}
	return Str{}, false
}

func quoteStr(s Str) []*smt.Term {
	cs, ok := concreteString(s)
	if !ok {
		panic(imprecise{"%q of symbolic string"})
	}
	return mkStr(strconv.Quote(cs)).B
}

// fmtValue formats one operand (of static type t) under verb v.
func (r *Run) fmtValue(val Value, t types.Type, v verbSpec, o fmtOpts, depth int) []*smt.Term {
	if depth > 6 {
		panic(imprecise{"format nesting too deep"})
	}
	if p, ok := val.(Poison); ok {
		panic(imprecise{"unmodelled operand: " + p.Why})
	}
	if v.verb == 'T' {
		if t == nil {
			return mkStr("<nil>").B
		}
		return mkStr(types.TypeString(t, func(p *types.Package) string { return p.Name() })).B
	}
	if t == nil { // nil interface
		if v.verb == 'v' || v.verb == 's' {
			return pad(mkStr("<nil>").B, v, false, 0)
		}
		return mkStr(fmt.Sprintf("%%!%c(<nil>)", v.verb)).B
	}
	// Error() / String() take precedence for the string-ish verbs
	switch v.verb {
	case 'v', 's', 'q', 'w':
		if !(v.verb == 'v' && v.sharp) {
			for _, m := range []string{"Error", "String"} {
				if val == nil {
					break
				}
				if p, ok := val.(Ptr); ok && p.A == nil && p.V == nil {
					// nil pointer receiver: Go prints <nil> after recovering the panic
					if _, isPtr := t.Underlying().(*types.Pointer); isPtr {
						break
					}
				}
				if s, ok := r.callStringMethod(t, val, m); ok {
					if v.verb == 'q' {
						return pad(quoteStr(s), v, false, 0)
					}
					return pad(s.B, v, false, 0)
				}
			}
		}
	}
	switch u := t.Underlying().(type) {
	case *types.Basic:
		switch {
		case u.Info()&types.IsString != 0:
			s := val.(Str)
			switch v.verb {
			case 'v', 's', 'w':
				b := s.B
				if v.hasPrec && v.prec < len(b) {
					b = b[:v.prec]
				}
				return pad(b, v, false, 0)
			case 'q':
				return pad(quoteStr(s), v, false, 0)
			case 'x', 'X':
				var out []*smt.Term
				for _, b := range s.B {
					hexd := r.radixPow2(r.B.ZExt(b, 8), 4, v.verb == 'X', fmtOpts{allowFork: false})
					if len(hexd) == 1 {
						hexd = append([]*smt.Term{smt.Const(8, '0')}, hexd...)
					}
					out = append(out, hexd...)
				}
				return pad(out, v, false, 0)
			}
			return mkStr(fmt.Sprintf("%%!%c(string)", v.verb)).B
		case u.Info()&types.IsBoolean != 0:
			b := val.(*smt.Term)
			if !b.IsConst() {
				if !o.allowFork {
					panic(imprecise{"symbolic bool"})
				}
				if r.branch(b) {
					return pad(mkStr("true").B, v, false, 0)
				}
				return pad(mkStr("false").B, v, false, 0)
			}
			return pad(mkStr(strconv.FormatBool(b.K == 1)).B, v, false, 0)
		case u.Info()&types.IsInteger != 0:
			vv := v
			if v.verb == 's' {
				return mkStr("%!s(int)").B
			}
			return r.fmtInt(val.(*smt.Term), isSigned(t), vv, o)
		case u.Info()&types.IsFloat != 0:
			f := float64(val.(Float))
			return mkStr(fmt.Sprintf("%"+string(rune(v.verb)), f)).B
		case u.Kind() == types.UnsafePointer:
			panic(imprecise{"pointer text"})
		}
	case *types.Pointer:
		p := val.(Ptr)
		if p.A == nil && p.V == nil {
			return pad(mkStr("<nil>").B, v, false, 0)
		}
		if st, ok := u.Elem().Underlying().(*types.Struct); ok && depth == 0 && (v.verb == 'v') {
			_ = st
			inner := r.fmtValue(r.load(p, u.Elem()), u.Elem(), v, o, depth+1)
			return append(mkStr("&").B, inner...)
		}
		panic(imprecise{"pointer text"})
	case *types.Interface:
		i := val.(Iface)
		return r.fmtValue(i.V, i.T, v, o, depth+1)
	case *types.Slice:
		s := val.(Slice)
		if eb, ok := u.Elem().Underlying().(*types.Basic); ok && eb.Kind() == types.Uint8 {
			switch v.verb {
			case 's':
				return pad(r.sliceBytes(s), v, false, 0)
			case 'x', 'X':
				return r.fmtValue(Str{r.sliceBytes(s)}, types.Typ[types.String], v, o, depth+1)
			}
		}
		out := mkStr("[").B
		for i := 0; i < s.Len; i++ {
			if i > 0 {
				out = append(out, smt.Const(8, ' '))
			}
			out = append(out, r.fmtValue(r.sliceGet(s, i), u.Elem(), v, o, depth+1)...)
		}
		return append(out, smt.Const(8, ']'))
	case *types.Array:
		a := val.(*Agg)
		out := mkStr("[").B
		for i, e := range r.rd(a) {
			if i > 0 {
				out = append(out, smt.Const(8, ' '))
			}
			out = append(out, r.fmtValue(e, u.Elem(), v, o, depth+1)...)
		}
		return append(out, smt.Const(8, ']'))
	case *types.Struct:
		a := val.(*Agg)
		out := mkStr("{").B
		for i, e := range r.rd(a) {
			if i > 0 {
				out = append(out, smt.Const(8, ' '))
			}
			if v.plus {
				out = append(out, mkStr(u.Field(i).Name()+":").B...)
			}
			out = append(out, r.fmtValue(e, u.Field(i).Type(), v, o, depth+1)...)
		}
		return append(out, smt.Const(8, '}'))
	case *types.Map:
		panic(imprecise{"map text"})
	case *types.Signature:
		panic(imprecise{"func text"})
	}
	panic(imprecise{"unsupported operand type " + t.String()})
}

// sprintf formats like fmt.Sprintf. args are interface values. wrapped lists the %w operands.
func (r *Run) sprintf(format string, args []Value, o fmtOpts) (out []*smt.Term, wrapped []Value) {
	argi := 0
	for i := 0; i < len(format); {
		c := format[i]
		if c != '%' {
			out = append(out, smt.Const(8, uint64(c)))
			i++
			continue
		}
		i++
		if i >= len(format) {
			out = append(out, mkStr("%!(NOVERB)").B...)
			break
		}
		var v verbSpec
	flags:
		for i < len(format) {
			switch format[i] {
			case '+':
				v.plus = true
			case '-':
				v.minus = true
			case '#':
				v.sharp = true
			case '0':
				v.zero = true
			case ' ':
				v.spc = true
			default:
				break flags
			}
			i++
		}
		if i < len(format) && format[i] == '*' {
			panic(imprecise{"* width"})
		}
		for i < len(format) && format[i] >= '0' && format[i] <= '9' {
			v.width = v.width*10 + int(format[i]-'0')
			v.hasWidth = true
			i++
		}
		if i < len(format) && format[i] == '.' {
			i++
			v.hasPrec = true
			for i < len(format) && format[i] >= '0' && format[i] <= '9' {
				v.prec = v.prec*10 + int(format[i]-'0')
				i++
			}
		}
		if i >= len(format) {
			out = append(out, mkStr("%!(NOVERB)").B...)
			break
		}
		v.verb = format[i]
		i++
		if v.verb == '%' {
			out = append(out, smt.Const(8, '%'))
			continue
		}
		if argi >= len(args) {
			out = append(out, mkStr(fmt.Sprintf("%%!%c(MISSING)", v.verb)).B...)
			continue
		}
		a := args[argi]
		argi++
		ifc, ok := a.(Iface)
		if !ok {
			if p, ok := a.(Poison); ok {
				panic(imprecise{"unmodelled operand: " + p.Why})
			}
			panic(unsupported("sprintf operand is not an interface value"))
		}
		if v.verb == 'w' {
			wrapped = append(wrapped, ifc)
		}
		out = append(out, r.fmtValue(ifc.V, ifc.T, v, o, 0)...)
	}
	if argi < len(args) {
		out = append(out, mkStr("%!(EXTRA ").B...)
		for k := argi; k < len(args); k++ {
			if k > argi {
				out = append(out, mkStr(", ").B...)
			}
			ifc := args[k].(Iface)
			out = append(out, r.fmtValue(ifc.V, ifc.T, verbSpec{verb: 'T'}, o, 0)...)
			out = append(out, smt.Const(8, '='))
			out = append(out, r.fmtValue(ifc.V, ifc.T, verbSpec{verb: 'v'}, o, 0)...)
		}
		out = append(out, smt.Const(8, ')'))
	}
	return out, wrapped
}

// sprint formats like fmt.Sprint / Sprintln.
func (r *Run) sprint(args []Value, ln bool, o fmtOpts) []*smt.Term {
	var out []*smt.Term
	prevString := false
	for i, a := range args {
		ifc := a.(Iface)
		isStr := ifc.T != nil && isString(ifc.T)
		if i > 0 && (ln || (!isStr && !prevString)) {
			out = append(out, smt.Const(8, ' '))
		}
		out = append(out, r.fmtValue(ifc.V, ifc.T, verbSpec{verb: 'v'}, o, 0)...)
		prevString = isStr
	}
	if ln {
		out = append(out, smt.Const(8, '\n'))
	}
	return out
}

type decEntry struct {
	x    *smt.Term
	i, n int
}

type hornerEntry struct {
	digits []*smt.Term
	maxVal uint64
}

// hornerOf returns the digit bytes x was parsed from, if x is (an extension or a lossless
// truncation of) a value produced by the ParseUint summary on the current path.
func (r *Run) hornerOf(x *smt.Term) []*smt.Term {
	if r.hornerReg == nil {
		return nil
	}
	for x.Op == smt.OpZExt {
		x = x.A[0]
	}
	if h, ok := r.hornerReg[x]; ok {
		return h.digits
	}
	if x.Op == smt.OpExtract && x.K&0xff == 0 {
		if h, ok := r.hornerReg[x.A[0]]; ok {
			w := uint(x.K>>8) + 1
			if w >= 64 || h.maxVal < uint64(1)<<w {
				return h.digits
			}
		}
	}
	return nil
}
