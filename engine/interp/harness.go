package interp

import (
	"fmt"
	"go/types"

	"symgo/smt"

	"golang.org/x/tools/go/ssa"
)

// Intrinsic models a function the engine does not interpret from SSA.
type Intrinsic func(r *Run, caller *frame, fn *ssa.Function, args []Value) Value

var intrinsics = map[string]Intrinsic{}

// harnessPrims are the nondet/assert primitives, recognised by name inside harness packages.
var harnessPrims = map[string]Intrinsic{}

func cstr(v Value) string {
	s, ok := v.(Str)
	if !ok {
		panic(unsupported("harness primitive: name must be a string"))
	}
	cs, ok := concreteString(s)
	if !ok {
		panic(unsupported("harness primitive: name must be concrete"))
	}
	return cs
}

func cint(v Value) int {
	t, ok := v.(*smt.Term)
	if !ok || !t.IsConst() {
		panic(unsupported("harness primitive: count must be a concrete integer"))
	}
	return int(int64(t.K))
}

func (r *Run) nondetOrConcrete(name string, w uint8) *smt.Term {
	v := r.nondet(name, w)
	if r.E.Cfg.Concrete != nil {
		full := r.nondets[len(r.nondets)-1].Name
		return smt.Const(w, r.E.Cfg.Concrete[full])
	}
	return v
}

func init() {
	mk := func(w uint8) Intrinsic {
		return func(r *Run, _ *frame, _ *ssa.Function, args []Value) Value {
			return r.nondetOrConcrete(cstr(args[0]), w)
		}
	}
	harnessPrims["vU8"] = mk(8)
	harnessPrims["vU16"] = mk(16)
	harnessPrims["vU32"] = mk(32)
	harnessPrims["vU64"] = mk(64)
	harnessPrims["vI32"] = mk(32)
	harnessPrims["vI64"] = mk(64)
	harnessPrims["vInt"] = mk(64)
	harnessPrims["vBool"] = mk(0)
	harnessPrims["vBytes"] = func(r *Run, _ *frame, _ *ssa.Function, args []Value) Value {
		name, n := cstr(args[0]), cint(args[1])
		bs := make([]*smt.Term, n)
		for i := range bs {
			bs[i] = r.nondetOrConcrete(name, 8)
		}
		return r.newByteSlice(bs)
	}
	harnessPrims["vStr"] = func(r *Run, _ *frame, _ *ssa.Function, args []Value) Value {
		name, n := cstr(args[0]), cint(args[1])
		bs := make([]*smt.Term, n)
		for i := range bs {
			bs[i] = r.nondetOrConcrete(name, 8)
		}
		return Str{bs}
	}
	harnessPrims["vChoose"] = func(r *Run, _ *frame, _ *ssa.Function, args []Value) Value {
		n := cint(args[1])
		var c int
		if r.E.Cfg.Concrete != nil {
			if len(r.choices) < len(r.E.Cfg.ConcreteChoices) {
				c = r.E.Cfg.ConcreteChoices[len(r.choices)]
			}
		} else {
			c = r.choose(n)
		}
		r.choices = append(r.choices, c)
		return smt.Const(64, uint64(c))
	}
	harnessPrims["vLen"] = func(r *Run, _ *frame, _ *ssa.Function, args []Value) Value {
		n := cint(args[1]) + 1
		var c int
		if r.E.Cfg.Concrete != nil {
			if len(r.choices) < len(r.E.Cfg.ConcreteChoices) {
				c = r.E.Cfg.ConcreteChoices[len(r.choices)]
			}
		} else {
			c = r.choose(n)
		}
		r.choices = append(r.choices, c)
		return smt.Const(64, uint64(c))
	}
	harnessPrims["vAssume"] = func(r *Run, _ *frame, _ *ssa.Function, args []Value) Value {
		r.assume(r.asInt(args[0]))
		return nil
	}
	harnessPrims["vAssert"] = func(r *Run, _ *frame, _ *ssa.Function, args []Value) Value {
		label := cstr(args[1])
		r.res.Reached[label]++
		r.assertLabel(r.asInt(args[0]), label)
		return nil
	}
	harnessPrims["vReach"] = func(r *Run, _ *frame, _ *ssa.Function, args []Value) Value {
		r.res.Reached[cstr(args[0])]++
		return nil
	}
	harnessPrims["vKF"] = func(r *Run, _ *frame, _ *ssa.Function, args []Value) Value {
		return smt.Bool(r.E.Cfg.KnownIDs[cstr(args[0])])
	}
	harnessPrims["vKnown"] = func(r *Run, _ *frame, _ *ssa.Function, args []Value) Value {
		id := cstr(args[0])
		r.res.Reached["known:"+id]++
		r.knownFinding(id, r.asInt(args[1]))
		return nil
	}
	harnessPrims["vParam"] = func(r *Run, _ *frame, _ *ssa.Function, args []Value) Value {
		name := cstr(args[0])
		if v, ok := r.E.Cfg.Params[name]; ok {
			return smt.Const(64, uint64(v))
		}
		return args[1]
	}
	harnessPrims["vActive"] = func(r *Run, _ *frame, _ *ssa.Function, args []Value) Value {
		return smt.Bool(r.E.labelActive(cstr(args[0])))
	}
	harnessPrims["vObserve"] = func(r *Run, _ *frame, _ *ssa.Function, args []Value) Value {
		name := cstr(args[0])
		k := r.occ["obs:"+name]
		r.occ["obs:"+name] = k + 1
		t := r.asInt(args[1])
		r.res.Observed = append(r.res.Observed, Observation{Name: fmt.Sprintf("%s#%d", name, k), T: t})
		return nil
	}
	harnessPrims["vStop"] = func(r *Run, _ *frame, _ *ssa.Function, args []Value) Value {
		panic(abort{abStop, "vStop"})
	}
	harnessPrims["vGo"] = func(r *Run, _ *frame, _ *ssa.Function, args []Value) Value {
		r.spawn(args[0], nil)
		return nil
	}
	harnessPrims["vJoin"] = func(r *Run, _ *frame, _ *ssa.Function, args []Value) Value {
		r.joinAll()
		return nil
	}
	harnessPrims["vYield"] = func(r *Run, _ *frame, _ *ssa.Function, args []Value) Value {
		r.yield("vYield")
		return nil
	}
	harnessPrims["vOr"] = func(r *Run, _ *frame, _ *ssa.Function, args []Value) Value {
		return r.B.Or(r.asInt(args[0]), r.asInt(args[1]))
	}
	harnessPrims["vAnd"] = func(r *Run, _ *frame, _ *ssa.Function, args []Value) Value {
		return r.B.And(r.asInt(args[0]), r.asInt(args[1]))
	}
	harnessPrims["vImplies"] = func(r *Run, _ *frame, _ *ssa.Function, args []Value) Value {
		return r.B.Or(r.B.Not(r.asInt(args[0])), r.asInt(args[1]))
	}
	harnessPrims["vIf"] = func(r *Run, _ *frame, _ *ssa.Function, args []Value) Value {
		return r.B.Ite(r.asInt(args[0]), r.asInt(args[1]), r.asInt(args[2]))
	}
	harnessPrims["vClockCount"] = func(r *Run, _ *frame, _ *ssa.Function, args []Value) Value {
		return smt.Const(64, uint64(len(r.clockLog)))
	}
	harnessPrims["vClockSec"] = func(r *Run, _ *frame, _ *ssa.Function, args []Value) Value {
		return r.B.Sub(r.clockLog[cint(args[0])][0], smt.Const(64, 63_900_000_000))
	}
	harnessPrims["vClockNsec"] = func(r *Run, _ *frame, _ *ssa.Function, args []Value) Value {
		return r.B.ZExt(r.clockLog[cint(args[0])][1], 64)
	}
	// vFreezeStrings(what string, s []string): the whole backing array of s (up to its capacity) must not be written again.
	harnessPrims["vFreezeStrings"] = func(r *Run, _ *frame, _ *ssa.Function, args []Value) Value {
		sl, ok := args[1].(Slice)
		if !ok || sl.A == nil {
			return nil
		}
		if r.frozen == nil {
			r.frozen = map[*Agg]string{}
		}
		r.frozen[sl.A] = cstr(args[0])
		return nil
	}
	harnessPrims["vMapOrder"] = func(r *Run, _ *frame, _ *ssa.Function, args []Value) Value {
		r.reverseMaps = r.asInt(args[0]).IsTrue()
		return nil
	}
	harnessPrims["vSymbolic"] = func(r *Run, _ *frame, _ *ssa.Function, args []Value) Value {
		return smt.True
	}
	// vIsConcrete(x uint64) bool: engine-side introspection used only to steer harness loops.
	harnessPrims["vTrace"] = func(r *Run, _ *frame, _ *ssa.Function, args []Value) Value {
		if r.E.Cfg.Trace {
			r.tracef("%s", showValue(args[0]))
		}
		return nil
	}
}

var _ = types.Typ
