package interp

import (
	"fmt"
	"go/types"

	"symgo/smt"
)

// rd returns the element vector of a for reading (resolving copy-on-write).
func (r *Run) rd(a *Agg) []Value {
	if a.Frozen {
		if s := r.shadow[a]; s != nil {
			return s.E
		}
	}
	return a.E
}

// wr returns the element vector of a for writing.
func (r *Run) wr(a *Agg) []Value {
	if a.Frozen {
		s := r.shadow[a]
		if s == nil {
			if r.initPhase {
				return a.E
			}
			s = &Agg{E: append([]Value(nil), a.E...), T: a.T, Box: a.Box, P: a.P, PI: a.PI, ID: a.ID}
			r.shadow[a] = s
		}
		return s.E
	}
	return a.E
}

// cloneAgg deep-copies an aggregate out of memory into a free-standing value.
func (r *Run) cloneAgg(a *Agg) *Agg {
	src := r.rd(a)
	c := &Agg{T: a.T, E: make([]Value, len(src))}
	for i, e := range src {
		if ea, ok := e.(*Agg); ok {
			cc := r.cloneAgg(ea)
			cc.P, cc.PI = c, i
			c.E[i] = cc
		} else {
			c.E[i] = e
		}
	}
	return c
}

// copyInto overwrites the memory aggregate dst with the contents of src, in place,
// so that pointers into dst stay valid.
func (r *Run) copyInto(dst, src *Agg) {
	d := r.wr(dst)
	s := r.rd(src)
	if len(d) != len(s) {
		panic(unsupported(fmt.Sprintf("copyInto: shape mismatch %s vs %s", dst.T, src.T)))
	}
	for i, e := range s {
		if ea, ok := e.(*Agg); ok {
			if da, ok := d[i].(*Agg); ok {
				r.copyInto(da, ea)
			} else {
				c := r.cloneAgg(ea)
				c.P, c.PI = dst, i
				d[i] = c
			}
		} else {
			d[i] = e
		}
	}
}

func (r *Run) nilDeref(why string) {
	panic(r.fault("invalid memory address or nil pointer dereference", why))
}

// load reads the value p points to; t is the pointee type.
func (r *Run) load(p Ptr, t types.Type) Value {
	if p.V != nil {
		return r.loadView(p.V, t)
	}
	if p.A == nil {
		r.nilDeref("load")
	}
	if r.nthreads > 1 {
		r.recordAccess(p.A, p.I, false)
	}
	if p.SI != nil {
		return r.loadSym(p)
	}
	v := r.rd(p.A)[p.I]
	if a, ok := v.(*Agg); ok {
		return r.cloneAgg(a)
	}
	if lz, ok := v.(*LazyStr); ok {
		return lz.force(r)
	}
	return v
}

// store writes v through p.
func (r *Run) store(p Ptr, v Value, t types.Type) {
	if p.V != nil {
		r.storeView(p.V, v, t)
		return
	}
	if p.A == nil {
		r.nilDeref("store")
	}
	if r.nthreads > 1 {
		r.recordAccess(p.A, p.I, true)
	}
	if r.aliases != nil && !p.A.Box {
		r.checkAliasWrite(p)
	}
	if r.frozen != nil {
		r.checkFrozenWrite(p)
	}
	if r.local != nil {
		root := p.A
		for root.P != nil {
			root = root.P
		}
		if root.ID <= r.local.idBase {
			panic(mergeAbort{"store to pre-existing memory"})
		}
	}
	if p.SI != nil {
		r.storeSym(p, v)
		return
	}
	es := r.wr(p.A)
	if src, ok := v.(*Agg); ok {
		if dst, ok := es[p.I].(*Agg); ok {
			r.copyInto(dst, src)
			return
		}
		c := r.cloneAgg(src)
		c.P, c.PI = p.A, p.I
		es[p.I] = c
		return
	}
	es[p.I] = v
}

// loadSym reads A[SI] for scalar elements as an ite chain.
func (r *Run) loadSym(p Ptr) Value {
	es := r.rd(p.A)
	elems := make([]*smt.Term, 0, p.N-p.I)
	for j := p.I; j < p.N; j++ {
		e, ok := es[j].(*smt.Term)
		if !ok {
			panic(unsupported("symbolic index into non-scalar array"))
		}
		elems = append(elems, e)
	}
	return r.selectChain(elems, r.B.Sub(p.SI, smt.Const(p.SI.W, uint64(p.I))))
}

func (r *Run) storeSym(p Ptr, v Value) {
	nv, ok := v.(*smt.Term)
	if !ok {
		panic(unsupported("symbolic-index store of non-scalar"))
	}
	es := r.wr(p.A)
	for j := p.I; j < p.N; j++ {
		old := es[j].(*smt.Term)
		es[j] = r.B.Ite(r.B.Eq(p.SI, smt.Const(p.SI.W, uint64(j))), nv, old)
	}
}

// ---- byte views -----------------------------------------------------------------

// rootOf returns the root aggregate containing slot (a,i) and the byte offset of that slot in it.
func rootOf(a *Agg, i int) (*Agg, int) {
	off := slotOffset(a, i)
	for a.P != nil {
		off += slotOffset(a.P, a.PI)
		a = a.P
	}
	return a, off
}

func slotOffset(a *Agg, i int) int {
	if a.Box {
		return 0
	}
	switch u := a.T.Underlying().(type) {
	case *types.Struct:
		fs := make([]*types.Var, u.NumFields())
		for k := range fs {
			fs[k] = u.Field(k)
		}
		return int(sizes.Offsetsof(fs)[i])
	case *types.Array:
		return i * int(sizes.Sizeof(u.Elem()))
	}
	panic("slotOffset")
}

// rootType is the type of the whole root object (for a box, its element type).
func rootContent(r *Run, root *Agg) (Value, types.Type) {
	if root.Box {
		return r.rd(root)[0], root.T
	}
	return root, root.T
}

// readBytes collects n bytes at byte offset off of value v (of type t) in little-endian layout.
func (r *Run) readBytes(v Value, t types.Type, off, n int, out []*smt.Term) {
	// out has length n; fills out[k] for the bytes of v that overlap [off, off+n)
	size := int(sizes.Sizeof(t))
	if off >= size || off+n <= 0 {
		return
	}
	switch u := t.Underlying().(type) {
	case *types.Basic:
		w, ok := isFlatInt(t)
		if !ok {
			panic(unsupported("byte view over non-integer field of type " + t.String()))
		}
		tm := v.(*smt.Term)
		if w == 0 {
			tm = r.B.Ite(tm, smt.Const(8, 1), smt.Const(8, 0))
			w = 8
		}
		for k := 0; k < int(w)/8; k++ {
			idx := k - off
			if idx >= 0 && idx < n {
				out[idx] = r.B.Extract(tm, uint8(8*k+7), uint8(8*k))
			}
		}
	case *types.Struct:
		a := v.(*Agg)
		es := r.rd(a)
		fs := make([]*types.Var, u.NumFields())
		for k := range fs {
			fs[k] = u.Field(k)
		}
		offs := sizes.Offsetsof(fs)
		for k := range fs {
			fo := int(offs[k])
			fsz := int(sizes.Sizeof(fs[k].Type()))
			if fo+fsz <= off || fo >= off+n {
				continue
			}
			r.readBytes(es[k], fs[k].Type(), off-fo, n, out)
		}
		// padding bytes read as zero
	case *types.Array:
		a := v.(*Agg)
		es := r.rd(a)
		esz := int(sizes.Sizeof(u.Elem()))
		if esz == 0 {
			return
		}
		lo := off / esz
		if lo < 0 {
			lo = 0
		}
		hi := (off + n + esz - 1) / esz
		if hi > len(es) {
			hi = len(es)
		}
		for k := lo; k < hi; k++ {
			r.readBytes(es[k], u.Elem(), off-k*esz, n, out)
		}
	default:
		panic(unsupported("byte view over field of type " + t.String()))
	}
}

// writeBytes stores bytes in[0:n] at byte offset off of the memory value at slot (cont,i) of type t.
func (r *Run) writeBytes(cont *Agg, i int, t types.Type, off, n int, in []*smt.Term) {
	size := int(sizes.Sizeof(t))
	if off >= size || off+n <= 0 {
		return
	}
	switch u := t.Underlying().(type) {
	case *types.Basic:
		w, ok := isFlatInt(t)
		if !ok {
			panic(unsupported("byte view store over non-integer field of type " + t.String()))
		}
		es := r.wr(cont)
		old := es[i].(*smt.Term)
		if w == 0 {
			idx := 0 - off
			if idx >= 0 && idx < n {
				es[i] = r.B.Ne(in[idx], smt.Const(8, 0))
			}
			return
		}
		nb := int(w) / 8
		var res *smt.Term
		for k := nb - 1; k >= 0; k-- {
			idx := k - off
			var b *smt.Term
			if idx >= 0 && idx < n {
				b = in[idx]
			} else {
				b = r.B.Extract(old, uint8(8*k+7), uint8(8*k))
			}
			if res == nil {
				res = b
			} else {
				res = r.B.Concat(res, b)
			}
		}
		es[i] = res
	case *types.Struct:
		a := r.rd(cont)[i].(*Agg)
		fs := make([]*types.Var, u.NumFields())
		for k := range fs {
			fs[k] = u.Field(k)
		}
		offs := sizes.Offsetsof(fs)
		for k := range fs {
			fo := int(offs[k])
			fsz := int(sizes.Sizeof(fs[k].Type()))
			if fo+fsz <= off || fo >= off+n {
				continue
			}
			r.writeBytes(a, k, fs[k].Type(), off-fo, n, in)
		}
	case *types.Array:
		a := r.rd(cont)[i].(*Agg)
		r.writeBytesArray(a, u, off, n, in)
	default:
		panic(unsupported("byte view store over field of type " + t.String()))
	}
}

func (r *Run) writeBytesArray(a *Agg, u *types.Array, off, n int, in []*smt.Term) {
	esz := int(sizes.Sizeof(u.Elem()))
	if esz == 0 {
		return
	}
	cnt := len(r.rd(a))
	lo := off / esz
	if lo < 0 {
		lo = 0
	}
	hi := (off + n + esz - 1) / esz
	if hi > cnt {
		hi = cnt
	}
	for k := lo; k < hi; k++ {
		r.writeBytes(a, k, u.Elem(), off-k*esz, n, in)
	}
}

func (r *Run) viewRead(v *View, off, n int) []*smt.Term {
	out := make([]*smt.Term, n)
	val, t := rootContent(r, v.Root)
	total := int(sizes.Sizeof(t))
	if v.Off+off < 0 || v.Off+off+n > total {
		panic(unsupported(fmt.Sprintf("byte view read [%d,%d) outside object of %d bytes", v.Off+off, v.Off+off+n, total)))
	}
	r.readBytes(val, t, v.Off+off, n, out)
	for i := range out {
		if out[i] == nil {
			out[i] = smt.Const(8, 0) // padding
		}
	}
	return out
}

func (r *Run) viewWrite(v *View, off int, in []*smt.Term) {
	n := len(in)
	if v.Root.Box {
		total := int(sizes.Sizeof(v.Root.T))
		if v.Off+off < 0 || v.Off+off+n > total {
			panic(unsupported("byte view write outside object"))
		}
		r.writeBytes(v.Root, 0, v.Root.T, v.Off+off, n, in)
		return
	}
	u, ok := v.Root.T.Underlying().(*types.Array)
	if !ok {
		panic(unsupported("byte view write: root is not an array"))
	}
	total := int(sizes.Sizeof(v.Root.T))
	if v.Off+off < 0 || v.Off+off+n > total {
		panic(unsupported("byte view write outside object"))
	}
	r.writeBytesArray(v.Root, u, v.Off+off, n, in)
}

// fromBytes rebuilds a value of type t from little-endian bytes.
func (r *Run) fromBytes(t types.Type, b []*smt.Term) Value {
	switch u := t.Underlying().(type) {
	case *types.Basic:
		w, ok := isFlatInt(t)
		if !ok {
			panic(unsupported("view load of type " + t.String()))
		}
		if w == 0 {
			return r.B.Ne(b[0], smt.Const(8, 0))
		}
		var res *smt.Term
		for k := int(w)/8 - 1; k >= 0; k-- {
			if res == nil {
				res = b[k]
			} else {
				res = r.B.Concat(res, b[k])
			}
		}
		return res
	case *types.Struct:
		a := &Agg{T: t, E: make([]Value, u.NumFields())}
		fs := make([]*types.Var, u.NumFields())
		for k := range fs {
			fs[k] = u.Field(k)
		}
		offs := sizes.Offsetsof(fs)
		for k := range fs {
			fo := int(offs[k])
			fsz := int(sizes.Sizeof(fs[k].Type()))
			a.E[k] = r.fromBytes(fs[k].Type(), b[fo:fo+fsz])
			if c, ok := a.E[k].(*Agg); ok {
				c.P, c.PI = a, k
			}
		}
		return a
	case *types.Array:
		nel := int(u.Len())
		esz := int(sizes.Sizeof(u.Elem()))
		a := &Agg{T: t, E: make([]Value, nel)}
		for k := 0; k < nel; k++ {
			a.E[k] = r.fromBytes(u.Elem(), b[k*esz:(k+1)*esz])
			if c, ok := a.E[k].(*Agg); ok {
				c.P, c.PI = a, k
			}
		}
		return a
	}
	panic(unsupported("view load of type " + t.String()))
}

// toBytes flattens a register value of type t.
func (r *Run) toBytes(v Value, t types.Type) []*smt.Term {
	n := int(sizes.Sizeof(t))
	out := make([]*smt.Term, n)
	r.readBytes(v, t, 0, n, out)
	for i := range out {
		if out[i] == nil {
			out[i] = smt.Const(8, 0)
		}
	}
	return out
}

func (r *Run) loadView(v *View, t types.Type) Value {
	// special case: *(*string)(unsafe.Pointer(&byteSlice))
	if isString(t) && v.Off == 0 && v.Root.Box {
		if sl, ok := r.rd(v.Root)[0].(Slice); ok {
			r.noteAlias(sl)
			return Str{r.sliceBytes(sl)}
		}
		if s, ok := r.rd(v.Root)[0].(Str); ok {
			return s
		}
	}
	n := int(sizes.Sizeof(t))
	return r.fromBytes(t, r.viewRead(v, 0, n))
}

func (r *Run) storeView(v *View, val Value, t types.Type) {
	if r.local != nil {
		panic(mergeAbort{"view store"})
	}
	r.viewWrite(v, 0, r.toBytes(val, t))
}

// makeView converts pointer p (natural or view) to a view of type t.
func (r *Run) makeView(p Ptr, t types.Type) Ptr {
	if p.V != nil {
		return Ptr{V: &View{Root: p.V.Root, Off: p.V.Off, T: t}}
	}
	if p.A == nil {
		return Ptr{}
	}
	if p.SI != nil {
		panic(unsupported("unsafe cast of symbolic-index pointer"))
	}
	root, off := rootOf(p.A, p.I)
	return Ptr{V: &View{Root: root, Off: off, T: t}}
}

// ---- slices ---------------------------------------------------------------------

func (r *Run) sliceGet(s Slice, i int) Value {
	if s.V != nil {
		return r.viewRead(s.V, s.Off+i, 1)[0]
	}
	v := r.rd(s.A)[s.Off+i]
	if a, ok := v.(*Agg); ok {
		return r.cloneAgg(a)
	}
	return v
}

func (r *Run) sliceSet(s Slice, i int, v Value) {
	if s.V != nil {
		r.viewWrite(s.V, s.Off+i, []*smt.Term{v.(*smt.Term)})
		return
	}
	r.store(Ptr{A: s.A, I: s.Off + i}, v, nil)
}

// sliceBytes returns the byte terms of a []byte.
func (r *Run) sliceBytes(s Slice) []*smt.Term {
	if s.Len == 0 {
		return nil
	}
	if s.V != nil {
		return r.viewRead(s.V, s.Off, s.Len)
	}
	es := r.rd(s.A)
	out := make([]*smt.Term, s.Len)
	for i := range out {
		out[i] = es[s.Off+i].(*smt.Term)
	}
	return out
}

// newByteSlice allocates a fresh []byte with the given contents.
func (r *Run) newByteSlice(b []*smt.Term) Slice {
	a := &Agg{T: types.NewArray(types.Typ[types.Uint8], int64(len(b))), E: make([]Value, len(b)), ID: r.newID()}
	for i, t := range b {
		a.E[i] = t
	}
	return Slice{A: a, Len: len(b), Cap: len(b)}
}

// Strings made by reinterpreting a byte slice (unsafe) share its backing array. The engine's strings
// are snapshots, so instead of modelling the sharing it reports the one thing that makes the sharing
// observable: a later write into the range such a string covers (strings must stay immutable).
type aliasRange struct{ off, n int }

func (r *Run) noteAlias(sl Slice) {
	if sl.A == nil || sl.Len == 0 {
		return
	}
	if r.aliases == nil {
		r.aliases = map[*Agg][]aliasRange{}
	}
	r.aliases[sl.A] = append(r.aliases[sl.A], aliasRange{sl.Off, sl.Len})
}

func (r *Run) checkAliasWrite(p Ptr) {
	rs := r.aliases[p.A]
	if rs == nil {
		return
	}
	lo, hi := p.I, p.I+1
	if p.SI != nil {
		lo, hi = p.I, p.N
	}
	for _, a := range rs {
		if lo < a.off+a.n && hi > a.off {
			label := r.E.Cfg.Prop + "/string-backing-array-overwritten"
			if r.E.labelActive(label) {
				res, m := r.check(r.allVars())
				if res == smt.Sat {
					r.recordViolation(label, "a byte slice that was reinterpreted as a string (unsafe) is written again: the string's content changes under its holder", m)
				}
			}
			delete(r.aliases, p.A)
			return
		}
	}
}

// checkFrozenWrite reports a store into memory the harness froze with vFreezeStrings: package-level
// tables that every event shares. (Natively such a write is silent; it shows only through another
// holder of the same backing array.)
func (r *Run) checkFrozenWrite(p Ptr) {
	for a := p.A; a != nil; a = a.P {
		what, ok := r.frozen[a]
		if !ok {
			continue
		}
		label := r.E.Cfg.Prop + "/shared-table-written"
		if r.E.labelActive(label) {
			res, m := r.check(r.allVars())
			if res == smt.Sat {
				r.recordViolation(label, "store into the backing array of "+what+" (memory shared by every event)", m)
			}
		}
		delete(r.frozen, a)
		return
	}
}
