package interp

import (
	"fmt"
	"go/types"
	"math"
	"regexp"
	"strings"

	"symgo/smt"

	"golang.org/x/tools/go/ssa"
)

// nativeObj is an engine-side object handed to the interpreted program behind a pointer
// (compiled regexps and similar).
type nativeObj struct {
	kind   string
	data   interface{}
	fields []Value
	call   func(r *Run, method string, args []Value) Value
}

func reg(name string, f Intrinsic) { intrinsics[name] = f }

func (r *Run) sliceArgs(v Value) []Value {
	s, ok := v.(Slice)
	if !ok {
		return nil
	}
	return r.sliceElems(s)
}

// newObject allocates a struct of the named type and returns a pointer to it.
func (r *Run) newObject(t types.Type, fields ...Value) Ptr {
	b := newBox(t)
	b.ID = r.newID()
	a := b.E[0].(*Agg)
	for i, f := range fields {
		if fa, ok := f.(*Agg); ok {
			r.copyInto(a.E[i].(*Agg), fa)
		} else {
			a.E[i] = f
		}
	}
	return Ptr{A: b, I: 0}
}

func (r *Run) newError(msg Value) Value {
	t := r.E.lookupType("errors", "errorString")
	if t == nil {
		panic(unsupported("errors.errorString not loaded"))
	}
	return Iface{T: types.NewPointer(t), V: r.newObject(t, msg)}
}

// LazyStr is an error text that is only rendered if somebody reads it. Rendering never forks:
// where the exact text would need a fork the text is poison (most error texts are never looked at).
type LazyStr struct {
	format string
	ops    []Value
	done   bool
	val    Value
}

func (l *LazyStr) force(r *Run) Value {
	if l.done {
		return l.val
	}
	l.done = true
	l.val = Poison{"error text not modelled"}
	r.noFork++
	defer func() {
		r.noFork--
		if rec := recover(); rec != nil {
			if im, ok := rec.(imprecise); ok {
				l.val = Poison{"error text not modelled (" + im.why + ")"}
				return
			}
			panic(rec)
		}
	}()
	bs, _ := r.sprintf(l.format, l.ops, fmtOpts{allowFork: false})
	l.val = Str{bs}
	return l.val
}

func (r *Run) errorf(args []Value) Value {
	format := cstr(args[0])
	ops := r.sliceArgs(args[1])
	var msg Value = &LazyStr{format: format, ops: ops}
	wrapped := wrappedOperands(format, ops)
	switch len(wrapped) {
	case 0:
		return r.newError(msg)
	case 1:
		t := r.E.lookupType("fmt", "wrapError")
		w := wrapped[0]
		if wi, ok := w.(Iface); ok && wi.T != nil {
			// %w operand must implement error; otherwise fmt treats it as a plain value
			errT := types.Universe.Lookup("error").Type().Underlying().(*types.Interface)
			if !types.Implements(wi.T, errT) {
				return r.newError(msg)
			}
		}
		return Iface{T: types.NewPointer(t), V: r.newObject(t, msg, w)}
	}
	t := r.E.lookupType("fmt", "wrapErrors")
	errT := types.Universe.Lookup("error").Type()
	a := newArray(errT, len(wrapped))
	a.ID = r.newID()
	for i, w := range wrapped {
		a.E[i] = w
	}
	return Iface{T: types.NewPointer(t), V: r.newObject(t, msg, Slice{A: a, Len: len(wrapped), Cap: len(wrapped)})}
}

// wrappedOperands finds the operands of %w verbs without formatting anything.
func wrappedOperands(format string, ops []Value) []Value {
	var out []Value
	argi := 0
	for i := 0; i < len(format); i++ {
		if format[i] != '%' {
			continue
		}
		i++
		for i < len(format) && strings.IndexByte("+-# 0123456789.", format[i]) >= 0 {
			i++
		}
		if i >= len(format) {
			break
		}
		if format[i] == '%' {
			continue
		}
		if argi < len(ops) {
			if format[i] == 'w' {
				out = append(out, ops[argi])
			}
			argi++
		}
	}
	return out
}

// invokeMethod calls method name on an interface value if its dynamic type has it.
func (r *Run) invokeMethod(ifc Iface, name string, args ...Value) (Value, bool) {
	if ifc.T == nil || ifc.T == r.E.runtimeErrType {
		return nil, false
	}
	ms := r.E.Prog.MethodSets.MethodSet(ifc.T)
	for i := 0; i < ms.Len(); i++ {
		sel := ms.At(i)
		if sel.Obj().Name() != name {
			continue
		}
		fn := r.E.Prog.MethodValue(sel)
		if fn == nil {
			return nil, false
		}
		return r.callFn(fn, append([]Value{ifc.V}, args...), nil, nil), true
	}
	return nil, false
}

// errorsIs implements errors.Is.
func (r *Run) errorsIs(err, target Iface) *smt.Term {
	if err.T == nil || target.T == nil {
		return smt.Bool(err.T == nil && target.T == nil)
	}
	comparable := types.Comparable(target.T)
	for depth := 0; depth < 64; depth++ {
		if comparable && err.T != nil && types.Identical(err.T, target.T) {
			eq := r.valueEq(err.V, target.V)
			if eq.IsTrue() {
				return eq
			}
			if !eq.IsFalse() {
				if r.branch(eq) {
					return smt.True
				}
			}
		}
		if res, ok := r.invokeMethod(err, "Is", target); ok {
			if b, ok := res.(*smt.Term); ok {
				if b.IsTrue() {
					return b
				}
				if !b.IsFalse() && r.branch(b) {
					return smt.True
				}
			}
		}
		// Unwrap() error  or  Unwrap() []error
		res, ok := r.invokeMethod(err, "Unwrap")
		if !ok {
			return smt.False
		}
		switch u := res.(type) {
		case Iface:
			if u.T == nil {
				return smt.False
			}
			err = u
		case Slice:
			for _, e := range r.sliceElems(u) {
				ei := e.(Iface)
				if ei.T == nil {
					continue
				}
				if r.branch(r.errorsIs(ei, target)) {
					return smt.True
				}
			}
			return smt.False
		default:
			return smt.False
		}
	}
	panic(unsupported("errors.Is: chain too long"))
}

func (r *Run) mutexState(p Ptr) (*Agg, int) {
	if p.A == nil {
		r.nilDeref("mutex")
	}
	m, ok := r.rd(p.A)[p.I].(*Agg)
	if !ok {
		panic(unsupported("mutex intrinsic on non-struct"))
	}
	return m, 0
}

func init() {
	// ---- sync ----
	reg("(*sync.Mutex).Lock", func(r *Run, _ *frame, _ *ssa.Function, args []Value) Value {
		m, i := r.mutexState(args[0].(Ptr))
		r.yield("Mutex.Lock")
		r.block(func() bool { return r.rd(m)[i].(*smt.Term).K == 0 }, "Mutex.Lock")
		r.wr(m)[i] = smt.Const(32, 1)
		r.hbAcquire(m)
		return nil
	})
	reg("(*sync.Mutex).TryLock", func(r *Run, _ *frame, _ *ssa.Function, args []Value) Value {
		m, i := r.mutexState(args[0].(Ptr))
		r.yield("Mutex.TryLock")
		if r.rd(m)[i].(*smt.Term).K != 0 {
			return smt.False
		}
		r.wr(m)[i] = smt.Const(32, 1)
		r.hbAcquire(m)
		return smt.True
	})
	reg("(*sync.Mutex).Unlock", func(r *Run, _ *frame, _ *ssa.Function, args []Value) Value {
		m, i := r.mutexState(args[0].(Ptr))
		if r.rd(m)[i].(*smt.Term).K == 0 {
			panic(r.fault("sync: unlock of unlocked mutex", ""))
		}
		r.hbRelease(m)
		r.wr(m)[i] = smt.Const(32, 0)
		r.yield("Mutex.Unlock")
		return nil
	})
	// (happens-before: Unlock -> Lock/RLock through the mutex's own clock; RUnlock -> Lock through a
	// second clock, so that two readers stay unordered and a write under a read lock shows as a race)
	// RWMutex: modelled as writer flag in w.state (field 0 is a Mutex) and reader count in readerCount.
	rw := func(p Ptr, r *Run) *Agg {
		if p.A == nil {
			r.nilDeref("rwmutex")
		}
		return r.rd(p.A)[p.I].(*Agg)
	}
	rwState := func(r *Run, m *Agg) (writer bool, readers int64) {
		// fields: w Mutex; writerSem, readerSem uint32; readerCount, readerWait atomic.Int32
		w := r.rd(r.rd(m)[0].(*Agg))[0].(*smt.Term).K != 0
		rc := r.rd(r.rd(m)[3].(*Agg))
		// atomic.Int32 is struct{_ noCopy; v int32}
		cnt := rc[len(rc)-1].(*smt.Term).Signed()
		return w, cnt
	}
	setReaders := func(r *Run, m *Agg, n int64) {
		rcA := r.rd(m)[3].(*Agg)
		es := r.wr(rcA)
		es[len(es)-1] = smt.Const(32, uint64(n))
	}
	reg("(*sync.RWMutex).Lock", func(r *Run, _ *frame, _ *ssa.Function, args []Value) Value {
		m := rw(args[0].(Ptr), r)
		r.yield("RWMutex.Lock")
		r.block(func() bool { w, n := rwState(r, m); return !w && n == 0 }, "RWMutex.Lock")
		r.wr(r.rd(m)[0].(*Agg))[0] = smt.Const(32, 1)
		r.hbAcquire(m)
		r.hbAcquire(rwReaders{m}) // a writer is ordered after the readers that left, readers are not ordered among themselves
		return nil
	})
	reg("(*sync.RWMutex).Unlock", func(r *Run, _ *frame, _ *ssa.Function, args []Value) Value {
		m := rw(args[0].(Ptr), r)
		if w, _ := rwState(r, m); !w {
			panic(r.fault("sync: Unlock of unlocked RWMutex", ""))
		}
		r.hbRelease(m)
		r.wr(r.rd(m)[0].(*Agg))[0] = smt.Const(32, 0)
		r.yield("RWMutex.Unlock")
		return nil
	})
	reg("(*sync.RWMutex).RLock", func(r *Run, _ *frame, _ *ssa.Function, args []Value) Value {
		m := rw(args[0].(Ptr), r)
		r.yield("RWMutex.RLock")
		r.block(func() bool { w, _ := rwState(r, m); return !w }, "RWMutex.RLock")
		_, n := rwState(r, m)
		setReaders(r, m, n+1)
		r.hbAcquire(m)
		return nil
	})
	reg("(*sync.RWMutex).RUnlock", func(r *Run, _ *frame, _ *ssa.Function, args []Value) Value {
		m := rw(args[0].(Ptr), r)
		_, n := rwState(r, m)
		if n <= 0 {
			panic(r.fault("sync: RUnlock of unlocked RWMutex", ""))
		}
		r.hbRelease(rwReaders{m})
		setReaders(r, m, n-1)
		r.yield("RWMutex.RUnlock")
		return nil
	})

	// ---- sync.Pool: a LIFO free list per pool (the real one is per-P and may drop items at any GC;
	// returning the most recently put item is one of its legal behaviours and the one that makes reuse visible)
	poolKey := func(r *Run, v Value) *Agg {
		p := v.(Ptr)
		if p.A == nil {
			r.nilDeref("sync.Pool")
		}
		return r.rd(p.A)[p.I].(*Agg)
	}
	reg("(*sync.Pool).Get", func(r *Run, caller *frame, _ *ssa.Function, args []Value) Value {
		pool := poolKey(r, args[0])
		key := fmt.Sprintf("pool:%p", pool)
		r.yield("sync.Pool.Get")
		items, _ := r.stubState[key].([]Value)
		if len(items) > 0 {
			it := items[len(items)-1]
			r.stubState[key] = items[:len(items)-1]
			// a Put happens before the Get that returns the item (the pool synchronises internally):
			// what the earlier owner did to the item is ordered before this owner's accesses
			r.hbAcquire(key)
			return it
		}
		es := r.rd(pool)
		newFn := es[len(es)-1]
		if c, ok := newFn.(*Closure); ok && c != nil {
			return r.callValue(c, nil, caller)
		}
		return Iface{}
	})
	reg("(*sync.Pool).Put", func(r *Run, caller *frame, _ *ssa.Function, args []Value) Value {
		pool := poolKey(r, args[0])
		key := fmt.Sprintf("pool:%p", pool)
		if ifc, ok := args[1].(Iface); ok && ifc.T == nil {
			return nil
		}
		r.yield("sync.Pool.Put")
		items, _ := r.stubState[key].([]Value)
		r.stubState[key] = append(items, args[1])
		r.hbRelease(key)
		return nil
	})

	// ---- sync/atomic ----
	atomicOp := func(kind string) Intrinsic {
		return func(r *Run, _ *frame, fn *ssa.Function, args []Value) Value {
			p := args[0].(Ptr)
			if p.A == nil && p.V == nil {
				r.nilDeref("atomic")
			}
			et := fn.Signature.Params().At(0).Type().Underlying().(*types.Pointer).Elem()
			r.yield("atomic." + kind)
			key := slotKey{p.A, p.I}
			r.hbAcquire(key)
			saved := r.nthreads
			r.nthreads = 1 // atomic accesses never race
			defer func() { r.nthreads = saved }()
			var res Value
			switch kind {
			case "Load":
				res = r.load(p, et)
			case "Store":
				r.store(p, args[1], et)
			case "Add":
				nv := r.B.Add(r.load(p, et).(*smt.Term), args[1].(*smt.Term))
				r.store(p, nv, et)
				res = nv
			case "Swap":
				res = r.load(p, et)
				r.store(p, args[1], et)
			case "And":
				old := r.load(p, et).(*smt.Term)
				r.store(p, r.B.BAnd(old, args[1].(*smt.Term)), et)
				res = old
			case "Or":
				old := r.load(p, et).(*smt.Term)
				r.store(p, r.B.BOr(old, args[1].(*smt.Term)), et)
				res = old
			case "CompareAndSwap":
				old := r.load(p, et)
				eq := r.valueEq(old, args[1])
				if r.branch(eq) {
					r.store(p, args[2], et)
					res = smt.True
				} else {
					res = smt.False
				}
			}
			r.nthreads = saved
			r.hbRelease(key)
			return res
		}
	}
	for _, ty := range []string{"Int32", "Int64", "Uint32", "Uint64", "Uintptr", "Pointer"} {
		for _, k := range []string{"Load", "Store", "Add", "Swap", "CompareAndSwap", "And", "Or"} {
			reg("sync/atomic."+k+ty, atomicOp(k))
		}
	}

	// ---- sync/atomic.Value: one slot of type any, accessed atomically (the real one goes through
	// unsafe pointer pairs; the nil / inconsistent-type panics of Store are kept) ----
	avSlot := func(r *Run, v Value) (*Agg, slotKey) {
		p := v.(Ptr)
		if p.A == nil {
			r.nilDeref("atomic.Value")
		}
		a := r.rd(p.A)[p.I].(*Agg)
		return a, slotKey{a, 0}
	}
	avOp := func(kind string) Intrinsic {
		return func(r *Run, _ *frame, fn *ssa.Function, args []Value) Value {
			a, key := avSlot(r, args[0])
			r.yield("atomic.Value." + kind)
			r.hbAcquire(key)
			defer r.hbRelease(key)
			old, _ := r.rd(a)[0].(Iface)
			checkNew := func(nv Iface) {
				if nv.T == nil {
					panic(r.fault("sync/atomic: store of nil value into Value", "atomic.Value"))
				}
				if old.T != nil && !types.Identical(old.T, nv.T) {
					panic(r.fault("sync/atomic: store of inconsistently typed value into Value", "atomic.Value"))
				}
			}
			switch kind {
			case "Load":
				return old
			case "Store":
				nv := args[1].(Iface)
				checkNew(nv)
				r.wr(a)[0] = nv
				return nil
			case "Swap":
				nv := args[1].(Iface)
				checkNew(nv)
				r.wr(a)[0] = nv
				return old
			case "CompareAndSwap":
				nv := args[2].(Iface)
				checkNew(nv)
				if r.branch(r.valueEq(old, args[1])) {
					r.wr(a)[0] = nv
					return smt.True
				}
				return smt.False
			}
			return nil
		}
	}
	for _, k := range []string{"Load", "Store", "Swap", "CompareAndSwap"} {
		reg("(*sync/atomic.Value)."+k, avOp(k))
	}

	// ---- time ----
	reg("time.Now",func(r *Run, _ *frame, _ *ssa.Function, args []Value) Value { return r.timeNow() })
	reg("time.Sleep", func(r *Run, _ *frame, _ *ssa.Function, args []Value) Value {
		r.yield("time.Sleep")
		return nil
	})
	reg("time.now", func(r *Run, _ *frame, _ *ssa.Function, args []Value) Value {
		panic(unsupported("time.now reached directly"))
	})
	reg("time.runtimeNano", func(r *Run, _ *frame, _ *ssa.Function, args []Value) Value { return smt.Const(64, 1) })

	// ---- math (bit casts through unsafe) ----
	reg("math.Float64bits", func(r *Run, _ *frame, _ *ssa.Function, args []Value) Value {
		return smt.Const(64, math.Float64bits(float64(args[0].(Float))))
	})
	reg("math.Float64frombits", func(r *Run, _ *frame, _ *ssa.Function, args []Value) Value {
		t := r.asInt(args[0])
		if !t.IsConst() {
			panic(unsupported("Float64frombits of symbolic value"))
		}
		return Float(math.Float64frombits(t.K))
	})
	reg("math.Float32bits", func(r *Run, _ *frame, _ *ssa.Function, args []Value) Value {
		return smt.Const(32, uint64(math.Float32bits(float32(args[0].(Float)))))
	})
	reg("math.Float32frombits", func(r *Run, _ *frame, _ *ssa.Function, args []Value) Value {
		t := r.asInt(args[0])
		if !t.IsConst() {
			panic(unsupported("Float32frombits of symbolic value"))
		}
		return Float(math.Float32frombits(uint32(t.K)))
	})

	// ---- regexp: compiled on the host, matched by summarisation (rx.go) ----
	reg("regexp.MustCompile", func(r *Run, _ *frame, _ *ssa.Function, args []Value) Value {
		pat := cstr(args[0])
		re, err := regexp.Compile(pat)
		if err != nil {
			panic(targetPanic{v: Iface{T: r.E.runtimeErrType, V: mkStr("regexp: Compile: " + err.Error())}})
		}
		t := r.E.lookupType("regexp", "Regexp")
		b := &Agg{T: t, Box: true, E: []Value{&nativeObj{kind: "regexp", data: re}}, ID: r.newID()}
		return Ptr{A: b, I: 0}
	})

	// ---- socket syscalls: routed to harness-side stubs (vSys*) when the harness defines them ----
	route := func(stub string) Intrinsic {
		return func(r *Run, caller *frame, fn *ssa.Function, args []Value) Value {
			for p := range r.E.harnessPkgs {
				if f := p.Func(stub); f != nil {
					return r.callFn(f, args, nil, caller)
				}
			}
			panic(unsupported("syscall without harness stub: " + fn.String()))
		}
	}
	reg("syscall.Sendto", route("vSysSendto"))
	reg("syscall.Recvfrom", route("vSysRecvfrom"))
	reg("syscall.Close", route("vSysClose"))

	// ---- sort.Slice (the real one swaps through reflection): stable merge sort calling less ----
	sortSlice := func(r *Run, caller *frame, _ *ssa.Function, args []Value) Value {
		ifc, ok := args[0].(Iface)
		if !ok {
			panic(unsupported("sort.Slice on unmodelled value"))
		}
		sl, ok := ifc.V.(Slice)
		if !ok || sl.Len < 2 {
			return nil
		}
		// less(i, j) refers to current positions, so sort a permutation with a snapshot in place:
		// place the elements into a scratch order and compare by writing candidates to slots 0/1 is
		// not possible; instead use insertion by adjacent swaps (bubble-insertion), calling less(j-1, j).
		n := sl.Len
		for i := 1; i < n; i++ {
			for j := i; j > 0; j-- {
				res := r.callValue(args[1], []Value{smt.Const(64, uint64(j)), smt.Const(64, uint64(j-1))}, caller)
				if !r.branch(r.asInt(res)) {
					break
				}
				a, b := r.sliceGet(sl, j), r.sliceGet(sl, j-1)
				r.sliceSet(sl, j, b)
				r.sliceSet(sl, j-1, a)
			}
		}
		return nil
	}
	reg("sort.Slice", sortSlice)
	reg("sort.SliceStable", sortSlice)

	// ---- file system and user database: stubs answered by the harness (vStat / vUserLookup) ----
	harnessFunc := func(r *Run, name string) *ssa.Function {
		for p := range r.E.harnessPkgs {
			if f := p.Func(name); f != nil {
				return f
			}
		}
		return nil
	}
	stat := func(r *Run, caller *frame, fn *ssa.Function, args []Value) Value {
		kind := 0 // 0: does not exist, 1: file, 2: directory
		if f := harnessFunc(r, "vStat"); f != nil {
			kind = cint(r.callFn(f, []Value{args[0]}, nil, caller))
		}
		if kind == 0 {
			pe := r.E.lookupType("io/fs", "PathError")
			errno := Iface{T: r.E.lookupType("syscall", "Errno"), V: smt.Const(64, 2)}
			return Tuple{Iface{}, Iface{T: types.NewPointer(pe), V: r.newObject(pe, mkStr("stat"), args[0], errno)}}
		}
		isDir := kind == 2
		fi := &nativeObj{kind: "fileinfo"}
		fi.call = func(r *Run, method string, as []Value) Value {
			switch method {
			case "IsDir":
				return smt.Bool(isDir)
			case "Mode":
				if isDir {
					return smt.Const(32, 1<<31|0o755)
				}
				return smt.Const(32, 0o644)
			case "Size":
				return smt.Const(64, 0)
			case "Name":
				return mkStr("stub")
			}
			panic(unsupported("FileInfo." + method + " on stat stub"))
		}
		return Tuple{Iface{T: r.E.fileInfoType(), V: fi}, Iface{}}
	}
	reg("os.Stat", stat)
	reg("os.Lstat", stat)
	userLookup := func(byID bool, group bool) Intrinsic {
		return func(r *Run, caller *frame, fn *ssa.Function, args []Value) Value {
			// harness: vUserLookup(name string, byID, group bool) (id string, name string, ok bool)
			f := harnessFunc(r, "vUserLookup")
			found := false
			var id, name Value = mkStr(""), mkStr("")
			if f != nil {
				res := r.callFn(f, []Value{args[0], smt.Bool(byID), smt.Bool(group)}, nil, caller).(Tuple)
				id, name = res[0], res[1]
				found = r.branch(r.asInt(res[2]))
			}
			tn, en := "User", "UnknownUserError"
			if group {
				tn, en = "Group", "UnknownGroupError"
			}
			if byID {
				en = map[bool]string{false: "UnknownUserIdError", true: "UnknownGroupIdError"}[group]
			}
			if !found {
				et := r.E.lookupType("os/user", en)
				var ev Value = args[0]
				if byID && !group {
					ev = smt.Const(64, 0) // UnknownUserIdError is an int
				}
				return Tuple{Ptr{}, Iface{T: et, V: ev}}
			}
			t := r.E.lookupType("os/user", tn)
			if group {
				return Tuple{r.newObject(t, id, name), Iface{}}
			}
			return Tuple{r.newObject(t, id, mkStr("0"), name, name, mkStr("/")), Iface{}}
		}
	}
	reg("os/user.Lookup", userLookup(false, false))
	reg("os/user.LookupId", userLookup(true, false))
	reg("os/user.LookupGroup", userLookup(false, true))
	reg("os/user.LookupGroupId", userLookup(true, true))
	reg("(*flag.FlagSet).usage", func(r *Run, _ *frame, _ *ssa.Function, args []Value) Value { return nil })

	// ---- os ----
	reg("os.NewFile", func(r *Run, _ *frame, _ *ssa.Function, args []Value) Value { return Poison{"os.NewFile"} })
	reg("syscall.Getrlimit", func(r *Run, _ *frame, _ *ssa.Function, args []Value) Value {
		return Iface{T: r.E.lookupType("syscall", "Errno"), V: smt.Const(64, 22)}
	})
	reg("os.Getpid", func(r *Run, _ *frame, _ *ssa.Function, args []Value) Value {
		if v, ok := r.stubState["pid"]; ok {
			return v.(*smt.Term)
		}
		p := r.freshVar(64, "pid")
		r.assumeRaw(r.B.And(r.B.Ugt(p, smt.Const(64, 0)), r.B.Ult(p, smt.Const(64, 1<<22))))
		r.stubState["pid"] = p
		return p
	})
	reg("os.Getpagesize", func(r *Run, _ *frame, _ *ssa.Function, args []Value) Value { return smt.Const(64, 4096) })

	// ---- errors / fmt ----
	reg("errors.Is", func(r *Run, _ *frame, _ *ssa.Function, args []Value) Value {
		return r.errorsIs(args[0].(Iface), args[1].(Iface))
	})
	reg("fmt.Errorf", func(r *Run, _ *frame, _ *ssa.Function, args []Value) Value { return r.errorf(args) })
	reg("fmt.Sprintf", func(r *Run, _ *frame, _ *ssa.Function, args []Value) Value {
		return r.sprintfValue(cstr(args[0]), r.sliceArgs(args[1]))
	})
	reg("fmt.Sprint", func(r *Run, _ *frame, _ *ssa.Function, args []Value) Value {
		return r.sprintValue(r.sliceArgs(args[0]), false)
	})
	reg("fmt.Sprintln", func(r *Run, _ *frame, _ *ssa.Function, args []Value) Value {
		return r.sprintValue(r.sliceArgs(args[0]), true)
	})
	for _, n := range []string{"fmt.Println", "fmt.Printf", "fmt.Print"} {
		reg(n, func(r *Run, _ *frame, fn *ssa.Function, args []Value) Value {
			return Tuple{smt.Const(64, 0), Iface{}}
		})
	}
	reg("fmt.Fprintf", func(r *Run, caller *frame, _ *ssa.Function, args []Value) Value {
		s := r.sprintfValue(cstr(args[1]), r.sliceArgs(args[2]))
		return r.writeTo(args[0], s)
	})
	reg("fmt.Fprint", func(r *Run, caller *frame, _ *ssa.Function, args []Value) Value {
		s := r.sprintValue(r.sliceArgs(args[1]), false)
		return r.writeTo(args[0], s)
	})
	reg("fmt.Fprintln", func(r *Run, caller *frame, _ *ssa.Function, args []Value) Value {
		s := r.sprintValue(r.sliceArgs(args[1]), true)
		return r.writeTo(args[0], s)
	})
}

func (r *Run) sprintfValue(format string, ops []Value) Value {
	var out Value
	func() {
		defer func() {
			if rec := recover(); rec != nil {
				if im, ok := rec.(imprecise); ok {
					out = Poison{"formatted text not modelled (" + im.why + ")"}
					return
				}
				panic(rec)
			}
		}()
		bs, _ := r.sprintf(format, ops, fmtOpts{allowFork: true})
		out = Str{bs}
	}()
	return out
}

func (r *Run) sprintValue(ops []Value, ln bool) Value {
	var out Value
	func() {
		defer func() {
			if rec := recover(); rec != nil {
				if im, ok := rec.(imprecise); ok {
					out = Poison{"formatted text not modelled (" + im.why + ")"}
					return
				}
				panic(rec)
			}
		}()
		out = Str{r.sprint(ops, ln, fmtOpts{allowFork: true})}
	}()
	return out
}

// writeTo implements the io.Writer side of Fprintf: calls w.Write(bytes) on the interface value.
func (r *Run) writeTo(w Value, s Value) Value {
	ifc := w.(Iface)
	str, ok := s.(Str)
	if !ok {
		if ifc.T != nil && ifc.T.String() == "io.discard" {
			return Tuple{smt.Const(64, 0), Iface{}} // the text goes nowhere
		}
		panic(unsupported("Fprintf with unmodelled text"))
	}
	res, ok := r.invokeMethod(ifc, "Write", r.newByteSlice(str.B))
	if !ok {
		panic(unsupported("Fprintf: writer without Write method"))
	}
	return res
}

// timeNow is the clock stub: wall-only instants that never decrease.
func (r *Run) timeNow() Value {
	tt := r.E.lookupType("time", "Time")
	if tt == nil {
		panic(unsupported("time.Time not loaded"))
	}
	const base = 63_900_000_000 // seconds since year 1 (around 2025)
	var sec, nsec *smt.Term
	B := r.B
	if r.E.Cfg.Clock == "sym" {
		k := r.timeN
		r.timeN++
		if r.E.Cfg.Concrete != nil {
			sec = smt.Const(64, r.E.Cfg.Concrete[fmt.Sprintf("~f_clock_sec__%d", k)])
			nsec = smt.Const(32, r.E.Cfg.Concrete[fmt.Sprintf("~f_clock_nsec__%d", k)])
		} else {
			sec = r.B.Var(64, fmt.Sprintf("f_clock_sec__%d", k))
			nsec = r.B.Var(32, fmt.Sprintf("f_clock_nsec__%d", k))
			r.assumeRaw(B.And(B.Uge(sec, smt.Const(64, base)), B.Ult(sec, smt.Const(64, base+(1<<31)))))
			r.assumeRaw(B.Ult(nsec, smt.Const(32, 1_000_000_000)))
			if r.lastTime[0] != nil {
				ps, pn := r.lastTime[0], r.lastTime[1]
				r.assumeRaw(B.Or(B.Ugt(sec, ps), B.And(B.Eq(sec, ps), B.Uge(nsec, pn))))
			}
		}
		r.lastTime = [2]*smt.Term{sec, nsec}
		r.clockLog = append(r.clockLog, [2]*smt.Term{sec, nsec})
	} else {
		sec = smt.Const(64, base)
		nsec = smt.Const(32, 0)
	}
	loc := Ptr{}
	for _, p := range r.E.Prog.AllPackages() {
		if p.Pkg.Path() == "time" {
			if g, ok := p.Members["localLoc"].(*ssa.Global); ok {
				loc = Ptr{A: r.E.globals[g], I: 0}
			}
		}
	}
	a := zero(tt).(*Agg)
	a.E[0] = B.ZExt(nsec, 64)
	a.E[1] = sec
	a.E[2] = loc
	return a
}

// rwReaders keys the clock into which the readers of an RWMutex release.
type rwReaders struct{ m *Agg }
