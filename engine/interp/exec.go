package interp

import (
	"fmt"
	"go/token"
	"go/types"
	"os"
	"runtime/debug"
	"sync"

	"symgo/smt"

	"golang.org/x/tools/go/ssa"
)

type fnInfo struct {
	idx       map[ssa.Value]int
	n         int
	intrinsic Intrinsic
	checked   bool
	name      string
	harness   string // non-empty for harness primitives (vU32 ...)

	mergeChecked, mergeOK bool
}

var fnInfos sync.Map // *ssa.Function -> *fnInfo
var constCache sync.Map

func (e *Engine) info(fn *ssa.Function) *fnInfo {
	if v, ok := fnInfos.Load(fn); ok {
		return v.(*fnInfo)
	}
	fi := &fnInfo{idx: map[ssa.Value]int{}, name: fn.String()}
	add := func(v ssa.Value) {
		fi.idx[v] = fi.n
		fi.n++
	}
	for _, p := range fn.Params {
		add(p)
	}
	for _, fv := range fn.FreeVars {
		add(fv)
	}
	for _, b := range fn.Blocks {
		for _, in := range b.Instrs {
			if v, ok := in.(ssa.Value); ok {
				add(v)
			}
		}
	}
	fi.intrinsic = intrinsics[fi.name]
	if fn.Pkg != nil && fn.Parent() == nil && fn.Signature.Recv() == nil {
		if h, ok := harnessPrims[fn.Name()]; ok && e.isHarnessPkg(fn.Pkg) {
			fi.intrinsic = h
			fi.harness = fn.Name()
		}
	}
	v, _ := fnInfos.LoadOrStore(fn, fi)
	return v.(*fnInfo)
}

// notInterpreted lists packages whose functions are never executed from SSA (reflection, runtime,
// the file system ...). Calls return poison unless an intrinsic models them.
var notInterpreted = map[string]bool{
	"runtime": true, "reflect": true, "internal/reflectlite": true, "internal/abi": true, "internal/poll": true,
	"internal/syscall/unix": true, "internal/godebug": true, "runtime/debug": true, "internal/testlog": true,
	"gopkg.in/yaml.v3": true, "os/user": true, "internal/oserror": false, "internal/cpu": true, "internal/bisect": true,
	"encoding/json": true, "internal/race": true, "internal/itoa": false,
}

type deferred struct {
	fn   Value
	args []Value
	pos  token.Pos
}

type frame struct {
	r         *Run
	fn        *ssa.Function
	info      *fnInfo
	env       []Value
	block     *ssa.BasicBlock
	prev      *ssa.BasicBlock
	defers    []deferred
	result    Value
	panicking bool
	panicVal  *targetPanic
	caller    *frame
	visits    []int
	depth     int
}

func (fr *frame) get(v ssa.Value) Value {
	switch v := v.(type) {
	case nil:
		return nil
	case *ssa.Const:
		if c, ok := constCache.Load(v); ok {
			return c
		}
		c := constValue(v)
		if _, isAgg := c.(*Agg); !isAgg {
			constCache.Store(v, c)
		}
		return c
	case *ssa.Global:
		g := fr.r.E.globals[v]
		if g == nil {
			panic(unsupported("global without storage: " + v.String()))
		}
		return Ptr{A: g, I: 0}
	case *ssa.Function:
		return &Closure{Fn: v}
	case *ssa.Builtin:
		return &Closure{Builtin: v}
	}
	i, ok := fr.info.idx[v]
	if !ok {
		panic(unsupported(fmt.Sprintf("no slot for %T %s in %s", v, v.Name(), fr.fn)))
	}
	return fr.env[i]
}

func (fr *frame) set(v ssa.Value, x Value) { fr.env[fr.info.idx[v]] = x }

func (r *Run) posOf(in ssa.Instruction) string {
	if in == nil {
		return ""
	}
	p := in.Pos()
	if !p.IsValid() {
		if in.Parent() != nil {
			return in.Parent().String()
		}
		return ""
	}
	return r.E.Prog.Fset.Position(p).String()
}

// callFn calls an SSA function (or its intrinsic), merging pure callees where possible.
func (r *Run) callFn(fn *ssa.Function, args []Value, env []Value, caller *frame) Value {
	if !r.initPhase && !r.E.Cfg.NoMerge && r.nthreads <= 1 && hasSymbolic(args) && r.E.mergeable(fn, 0) {
		if v, ok := r.callMerged(fn, args, env, caller); ok {
			return v
		}
	}
	return r.callFnPlain(fn, args, env, caller)
}

func hasSymbolic(args []Value) bool {
	for _, a := range args {
		switch a := a.(type) {
		case *smt.Term:
			if !a.IsConst() {
				return true
			}
		case *Agg, Ptr, Slice:
			return true // may reach symbolic data
		}
	}
	return false
}

// callBody interprets fn from its SSA even if an intrinsic is registered for it.
func (r *Run) callBody(fn *ssa.Function, args []Value, caller *frame) Value {
	r.noIntrinsic = fn
	return r.callFnPlain(fn, args, nil, caller)
}

func (r *Run) callFnPlain(fn *ssa.Function, args []Value, env []Value, caller *frame) Value {
	fi := r.E.info(fn)
	if r.noIntrinsic == fn {
		r.noIntrinsic = nil
		return r.execBody(fn, fi, args, env, caller)
	}
	if r.initPhase && fn.Synthetic == "package initializer" && caller != nil {
		// initialisers of imported packages: isolated, so that one failing package does not stop the rest
		if fn.Pkg != nil && skipInit[fn.Pkg.Pkg.Path()] {
			return nil
		}
		d := r.depth
		r.E.runInit(r, fn)
		r.depth = d
		return nil
	}
	if fi.intrinsic != nil {
		if r.res != nil {
			r.res.Intrinsics[fi.name] = true
		}
		return fi.intrinsic(r, caller, fn, args)
	}
	if fn.Pkg != nil && notInterpreted[fn.Pkg.Pkg.Path()] {
		return poisonResult(fn, "function of non-interpreted package: "+fi.name)
	}
	if fn.Blocks == nil {
		if r.E.Cfg.PoisonExternals || r.initPhase {
			return poisonResult(fn, "external function "+fi.name)
		}
		panic(unsupported("no body and no model for " + fi.name))
	}
	return r.execBody(fn, fi, args, env, caller)
}

func (r *Run) execBody(fn *ssa.Function, fi *fnInfo, args []Value, env []Value, caller *frame) Value {
	if fn.TypeParams().Len() > 0 && len(fn.TypeArgs()) == 0 {
		panic(unsupported("uninstantiated generic " + fi.name))
	}
	if r.res != nil && fn.Pkg != nil {
		r.res.Funcs[fi.name] = true
	}
	d0 := r.depth
	r.depth++
	if r.depth > 400 {
		panic(abort{abBudget, "call depth exceeded in " + fi.name})
	}
	r.lastFn = fi.name
	fr := &frame{r: r, fn: fn, info: fi, caller: caller, env: make([]Value, fi.n), depth: r.depth}
	copy(fr.env, args)
	copy(fr.env[len(fn.Params):], env)
	fr.block = fn.Blocks[0]
	for fr.block != nil {
		fr.runBlocks()
	}
	r.depth = d0
	if caller != nil {
		r.lastFn = caller.info.name
	}
	return fr.result
}

func poisonResult(fn *ssa.Function, why string) Value {
	res := fn.Signature.Results()
	switch res.Len() {
	case 0:
		return nil
	case 1:
		return Poison{why}
	}
	t := make(Tuple, res.Len())
	for i := range t {
		t[i] = Poison{why}
	}
	return t
}

// runBlocks executes instructions until return, panic or recovered panic.
func (fr *frame) runBlocks() {
	defer func() {
		if fr.block == nil {
			return // normal return
		}
		rec := recover()
		tp, ok := rec.(targetPanic)
		if !ok {
			panic(rec) // engine abort or Go bug: propagate untouched
		}
		fr.panicking = true
		fr.panicVal = &tp
		fr.r.depth = fr.depth
		fr.runDefers()
		// recovered
		fr.block = fr.fn.Recover
		if fr.block == nil {
			// no named results: return zero values
			fr.result = zeroResults(fr.fn)
		}
	}()
	r := fr.r
	for {
		blk := fr.block
		instrs := blk.Instrs
		// phis: parallel assignment
		nphi := 0
		for nphi < len(instrs) {
			if _, ok := instrs[nphi].(*ssa.Phi); !ok {
				break
			}
			nphi++
		}
		if nphi > 0 {
			pi := -1
			for k, p := range blk.Preds {
				if p == fr.prev {
					pi = k
					break
				}
			}
			tmp := make([]Value, nphi)
			for k := 0; k < nphi; k++ {
				tmp[k] = fr.get(instrs[k].(*ssa.Phi).Edges[pi])
			}
			for k := 0; k < nphi; k++ {
				fr.set(instrs[k].(*ssa.Phi), tmp[k])
			}
		}
		for _, in := range instrs[nphi:] {
			r.steps++
			if r.steps > r.maxSteps {
				panic(abort{abBudget, fmt.Sprintf("instruction budget (%d) exhausted in %s", r.maxSteps, fr.fn)})
			}
			switch fr.visit(in) {
			case kReturn:
				return
			case kJump:
			}
		}
		if fr.block == nil {
			return
		}
	}
}

func zeroResults(fn *ssa.Function) Value {
	res := fn.Signature.Results()
	switch res.Len() {
	case 0:
		return nil
	case 1:
		return zero(res.At(0).Type())
	}
	return zero(res)
}

func (fr *frame) runDefers() {
	for len(fr.defers) > 0 {
		d := fr.defers[len(fr.defers)-1]
		fr.defers = fr.defers[:len(fr.defers)-1]
		fr.runDefer(d)
	}
	if fr.panicking {
		panic(*fr.panicVal)
	}
}

func (fr *frame) runDefer(d deferred) {
	ok := false
	defer func() {
		if !ok {
			rec := recover()
			tp, isTP := rec.(targetPanic)
			if !isTP {
				panic(rec)
			}
			fr.panicking = true
			fr.panicVal = &tp
		}
	}()
	fr.r.callValue(d.fn, d.args, fr)
	ok = true
}

// doRecover implements recover() called from frame fr (a deferred function).
func (fr *frame) doRecover() Value {
	c := fr.caller
	if c != nil && c.panicking && !fr.panicking {
		c.panicking = false
		p := c.panicVal
		c.panicVal = nil
		return p.v
	}
	return Iface{}
}

// callValue calls a function value.
func (r *Run) callValue(fv Value, args []Value, caller *frame) Value {
	switch f := fv.(type) {
	case *Closure:
		if f == nil {
			panic(r.fault("invalid memory address or nil pointer dereference", "call of nil func"))
		}
		if f.Native != nil {
			return f.Native(r, args)
		}
		if f.Builtin != nil {
			return r.callBuiltin(f.Builtin, args, caller, nil)
		}
		return r.callFn(f.Fn, args, f.Env, caller)
	case Poison:
		panic(unsupported("call of unmodelled function value: " + f.Why))
	}
	where := ""
	if caller != nil {
		where = " in " + caller.fn.String()
	}
	if os.Getenv("SYMGO_DEBUG") != "" {
		debug.PrintStack()
	}
	panic(unsupported(fmt.Sprintf("call of %T%s", fv, where)))
}

type cont int

const (
	kNext cont = iota
	kReturn
	kJump
)

func (fr *frame) jump(to *ssa.BasicBlock) {
	if to.Index <= fr.block.Index {
		if fr.visits == nil {
			fr.visits = make([]int, len(fr.fn.Blocks))
		}
		fr.visits[to.Index]++
		n := fr.visits[to.Index]
		if n > fr.r.res.MaxLoop {
			fr.r.res.MaxLoop = n
		}
		if n > fr.r.E.Cfg.LoopCap {
			panic(abort{abBudget, fmt.Sprintf("unwinding bound %d exceeded in %s", fr.r.E.Cfg.LoopCap, fr.fn)})
		}
	}
	fr.prev = fr.block
	fr.block = to
}

func (r *Run) lookupMethod(t types.Type, m *types.Func) *ssa.Function {
	return r.E.Prog.LookupMethod(t, m.Pkg(), m.Name())
}

func (fr *frame) prepareCall(call *ssa.CallCommon) (Value, []Value) {
	r := fr.r
	if call.IsInvoke() {
		recv := fr.get(call.Value)
		ifc, ok := recv.(Iface)
		if !ok {
			if p, ok := recv.(Poison); ok {
				return &Closure{Native: func(r *Run, as []Value) Value {
					n := call.Signature().Results().Len()
					if n == 0 {
						return nil
					}
					if n == 1 {
						return p
					}
					t := make(Tuple, n)
					for i := range t {
						t[i] = p
					}
					return t
				}}, nil
			}
			panic(unsupported(fmt.Sprintf("invoke on %T", recv)))
		}
		if ifc.T == nil {
			panic(r.fault("invalid memory address or nil pointer dereference", "method call on nil interface"))
		}
		if nm, ok := ifc.V.(*nativeObj); ok {
			args := make([]Value, 0, len(call.Args)+1)
			args = append(args, ifc.V)
			for _, a := range call.Args {
				args = append(args, fr.get(a))
			}
			return &Closure{Native: func(r *Run, as []Value) Value { return nm.call(r, call.Method.Name(), as[1:]) }}, args
		}
		fn := r.lookupMethod(ifc.T, call.Method)
		if fn == nil {
			panic(unsupported(fmt.Sprintf("no method %s on %s", call.Method.Name(), ifc.T)))
		}
		args := make([]Value, 0, len(call.Args)+1)
		args = append(args, ifc.V)
		for _, a := range call.Args {
			args = append(args, fr.get(a))
		}
		return &Closure{Fn: fn}, args
	}
	fv := fr.get(call.Value)
	args := make([]Value, len(call.Args))
	for i, a := range call.Args {
		args[i] = fr.get(a)
	}
	return fv, args
}

func (fr *frame) visit(in ssa.Instruction) cont {
	r := fr.r
	switch in := in.(type) {
	case *ssa.DebugRef:
	case *ssa.UnOp:
		fr.set(in, r.unop(in, fr.get(in.X)))
	case *ssa.BinOp:
		x, y := fr.get(in.X), fr.get(in.Y)
		if in.Op == token.SHL || in.Op == token.SHR {
			xt, ok1 := x.(*smt.Term)
			yt, ok2 := y.(*smt.Term)
			if !ok1 || !ok2 {
				panic(unsupported("shift of non-integers"))
			}
			fr.set(in, r.shift(in.Op, in.X.Type(), in.Y.Type(), xt, yt))
		} else {
			fr.set(in, r.binop(in.Op, in.X.Type(), x, y))
		}
	case *ssa.Call:
		fv, args := fr.prepareCall(&in.Call)
		var res Value
		if c, ok := fv.(*Closure); ok && c != nil && c.Builtin != nil {
			res = r.callBuiltin(c.Builtin, args, fr, in)
		} else {
			res = r.callValue(fv, args, fr)
		}
		fr.set(in, res)
	case *ssa.ChangeInterface:
		fr.set(in, fr.get(in.X))
	case *ssa.ChangeType:
		fr.set(in, fr.get(in.X))
	case *ssa.Convert:
		fr.set(in, r.conv(in.Type(), in.X.Type(), fr.get(in.X)))
	case *ssa.SliceToArrayPointer:
		s := fr.get(in.X).(Slice)
		n := int(in.Type().Underlying().(*types.Pointer).Elem().Underlying().(*types.Array).Len())
		if s.Len < n {
			panic(r.fault("cannot convert slice to array pointer: length too short", ""))
		}
		panic(unsupported("slice to array pointer"))
	case *ssa.MakeInterface:
		fr.set(in, Iface{T: in.X.Type(), V: fr.get(in.X)})
	case *ssa.Extract:
		tu, ok := fr.get(in.Tuple).(Tuple)
		if !ok {
			if p, ok := fr.get(in.Tuple).(Poison); ok {
				fr.set(in, p)
				break
			}
			panic(unsupported("extract from non-tuple"))
		}
		fr.set(in, tu[in.Index])
	case *ssa.Slice:
		fr.set(in, r.sliceOp(in, fr))
	case *ssa.Return:
		switch len(in.Results) {
		case 0:
		case 1:
			fr.result = fr.get(in.Results[0])
		default:
			tu := make(Tuple, len(in.Results))
			for i, x := range in.Results {
				tu[i] = fr.get(x)
			}
			fr.result = tu
		}
		fr.block = nil
		return kReturn
	case *ssa.RunDefers:
		fr.runDefers()
	case *ssa.Panic:
		v := fr.get(in.X)
		panic(targetPanic{v: v, pos: r.posOf(in)})
	case *ssa.Send:
		panic(unsupported("channel send"))
	case *ssa.Store:
		p, ok := fr.get(in.Addr).(Ptr)
		if !ok {
			panic(unsupported("store through unmodelled pointer"))
		}
		r.store(p, fr.get(in.Val), in.Val.Type())
	case *ssa.If:
		c := fr.get(in.Cond)
		ct, ok := c.(*smt.Term)
		if !ok {
			if p, ok := c.(Poison); ok {
				panic(unsupported("branch on unmodelled value: " + p.Why))
			}
			panic(unsupported("branch on non-bool"))
		}
		succ := 1
		if ct.IsConst() {
			if ct.K == 1 {
				succ = 0
			}
		} else if r.branch(ct) {
			succ = 0
		}
		fr.jump(fr.block.Succs[succ])
		return kJump
	case *ssa.Jump:
		fr.jump(fr.block.Succs[0])
		return kJump
	case *ssa.Defer:
		fv, args := fr.prepareCall(&in.Call)
		fr.defers = append(fr.defers, deferred{fn: fv, args: args, pos: in.Pos()})
	case *ssa.Go:
		fv, args := fr.prepareCall(&in.Call)
		r.spawn(fv, args)
	case *ssa.MakeChan:
		panic(unsupported("channels"))
	case *ssa.Alloc:
		t := in.Type().Underlying().(*types.Pointer).Elem()
		b := newBox(t)
		b.ID = r.newID()
		fr.set(in, Ptr{A: b, I: 0})
	case *ssa.MakeSlice:
		ln := r.asInt(fr.get(in.Len))
		cp := r.asInt(fr.get(in.Cap))
		l := r.allocSizeT(ln, in.Len.Type(), "makeslice: len out of range")
		c := r.allocSizeT(cp, in.Cap.Type(), "makeslice: cap out of range")
		if l > c {
			panic(r.fault("makeslice: cap out of range", ""))
		}
		et := in.Type().Underlying().(*types.Slice).Elem()
		a := newArray(et, c)
		a.ID = r.newID()
		fr.set(in, Slice{A: a, Len: l, Cap: c})
	case *ssa.MakeMap:
		mt := in.Type().Underlying().(*types.Map)
		fr.set(in, newMap(mt.Key(), mt.Elem(), r.newID()))
	case *ssa.Range:
		x := fr.get(in.X)
		switch x := x.(type) {
		case *MapObj:
			it := &mapIter{m: x}
			if m := r.mapRd(x); m != nil {
				it.eids = append([]int(nil), m.eids...)
				if r.E.Cfg.ReverseMaps != r.reverseMaps {
					for i, j := 0, len(it.eids)-1; i < j; i, j = i+1, j-1 {
						it.eids[i], it.eids[j] = it.eids[j], it.eids[i]
					}
				}
			}
			fr.set(in, it)
		case Str:
			fr.set(in, &strIter{s: x})
		default:
			panic(unsupported(fmt.Sprintf("range over %T", x)))
		}
	case *ssa.Next:
		switch it := fr.get(in.Iter).(type) {
		case *mapIter:
			if it.m == nil {
				fr.set(in, Tuple{smt.False, nil, nil})
				break
			}
			k, v, ok := r.mapNext(it)
			if !ok {
				mt := it.m
				fr.set(in, Tuple{smt.False, zero(mt.KT), zero(mt.VT)})
			} else {
				fr.set(in, Tuple{smt.True, k, v})
			}
		case *strIter:
			if it.pos >= len(it.s.B) {
				fr.set(in, Tuple{smt.False, smt.Const(64, 0), smt.Const(32, 0)})
				break
			}
			ru, n := r.decodeRune(Str{it.s.B[it.pos:]})
			fr.set(in, Tuple{smt.True, smt.Const(64, uint64(it.pos)), ru})
			it.pos += n
		default:
			panic(unsupported("next on unknown iterator"))
		}
	case *ssa.FieldAddr:
		p, ok := fr.get(in.X).(Ptr)
		if !ok {
			panic(unsupported("field address of unmodelled pointer"))
		}
		fr.set(in, r.fieldAddr(p, in.Field, in.X.Type()))
	case *ssa.Field:
		a, ok := fr.get(in.X).(*Agg)
		if !ok {
			if p, ok := fr.get(in.X).(Poison); ok {
				fr.set(in, p)
				break
			}
			panic(unsupported("field of non-struct"))
		}
		fr.set(in, r.rd(a)[in.Field])
	case *ssa.IndexAddr:
		fr.set(in, r.indexAddr(fr.get(in.X), r.asInt(fr.get(in.Index)), in.Index.Type(), in))
	case *ssa.Index:
		x := fr.get(in.X)
		idx := r.asInt(fr.get(in.Index))
		switch x := x.(type) {
		case Str:
			fr.set(in, r.indexScalars(x.B, idx, in.Index.Type()))
		case *Agg:
			es := r.rd(x)
			i := r.boundsCheck(idx, in.Index.Type(), len(es), true)
			fr.set(in, es[i])
		default:
			panic(unsupported(fmt.Sprintf("index of %T", x)))
		}
	case *ssa.Lookup:
		x := fr.get(in.X)
		switch x := x.(type) {
		case *MapObj:
			v, ok := r.mapLookup(x, fr.get(in.Index))
			if !ok {
				v = zero(in.X.Type().Underlying().(*types.Map).Elem())
			}
			if in.CommaOk {
				fr.set(in, Tuple{v, smt.Bool(ok)})
			} else {
				fr.set(in, v)
			}
		case Str:
			fr.set(in, r.indexScalars(x.B, r.asInt(fr.get(in.Index)), in.Index.Type()))
		case Poison:
			panic(unsupported("lookup in unmodelled map: " + x.Why))
		default:
			panic(unsupported(fmt.Sprintf("lookup in %T", x)))
		}
	case *ssa.MapUpdate:
		m, ok := fr.get(in.Map).(*MapObj)
		if !ok {
			panic(unsupported("update of unmodelled map"))
		}
		r.mapUpdate(m, fr.get(in.Key), fr.get(in.Value))
	case *ssa.TypeAssert:
		fr.set(in, r.typeAssert(in, fr.get(in.X)))
	case *ssa.MakeClosure:
		env := make([]Value, len(in.Bindings))
		for i, b := range in.Bindings {
			env[i] = fr.get(b)
		}
		fr.set(in, &Closure{Fn: in.Fn.(*ssa.Function), Env: env})
	case *ssa.Select:
		panic(unsupported("select"))
	case *ssa.MultiConvert:
		panic(unsupported("multiconvert"))
	default:
		panic(unsupported(fmt.Sprintf("instruction %T", in)))
	}
	return kNext
}

// allocSize turns a (possibly symbolic) size into a concrete one, checking the allocation cap.
func (r *Run) allocSize(t *smt.Term, faultMsg string) int {
	return r.allocSizeT(t, types.Typ[types.Int], faultMsg)
}

func (r *Run) allocSizeT(t *smt.Term, typ types.Type, faultMsg string) int {
	B := r.B
	t64 := B.Resize(t, 64, isSigned(typ))
	if t64.IsConst() {
		v := int64(t64.K)
		if v < 0 {
			panic(r.fault(faultMsg, ""))
		}
		if v > int64(r.E.Cfg.AllocCap) {
			r.allocTooBig(v)
		}
		return int(v)
	}
	if r.branch(B.Slt(t64, smt.Const(64, 0))) {
		panic(r.fault(faultMsg, ""))
	}
	if r.branch(B.Sgt(t64, smt.Const(64, uint64(r.E.Cfg.AllocCap)))) {
		r.allocTooBig(-1)
	}
	return int(r.concretize(t64, "allocation size"))
}

// allocTooBig reports an allocation whose size follows an input number past the cap.
func (r *Run) allocTooBig(v int64) {
	label := r.E.Cfg.Prop + "/alloc-proportional-to-input"
	if r.E.labelActive(label) {
		res, m := r.check(r.allVars())
		if res == smt.Sat {
			r.recordViolation(label, fmt.Sprintf("allocation larger than cap %d", r.E.Cfg.AllocCap), m)
		}
	}
	panic(abort{abStop, "allocation larger than the cap"})
}

func (r *Run) fieldAddr(p Ptr, field int, pt types.Type) Ptr {
	if p.V != nil {
		st := pt.Underlying().(*types.Pointer).Elem().Underlying().(*types.Struct)
		fs := make([]*types.Var, st.NumFields())
		for k := range fs {
			fs[k] = st.Field(k)
		}
		off := int(sizes.Offsetsof(fs)[field])
		return Ptr{V: &View{Root: p.V.Root, Off: p.V.Off + off, T: st.Field(field).Type()}}
	}
	if p.A == nil {
		r.nilDeref("field address")
	}
	if p.SI != nil {
		panic(unsupported("field of symbolic-index element"))
	}
	a, ok := r.rd(p.A)[p.I].(*Agg)
	if !ok {
		panic(unsupported(fmt.Sprintf("field address into %T", r.rd(p.A)[p.I])))
	}
	return Ptr{A: a, I: field}
}

// boundsCheck returns the concrete index after checking 0 <= idx < n (forking and
// concretising a symbolic index). forRead only affects the message.
func (r *Run) boundsCheck(idx *smt.Term, it types.Type, n int, forRead bool) int {
	B := r.B
	i64 := B.Resize(idx, 64, isSigned(it))
	if i64.IsConst() {
		v := int64(i64.K)
		if v < 0 || v >= int64(n) {
			panic(r.fault(fmt.Sprintf("index out of range [%d] with length %d", v, n), ""))
		}
		return int(v)
	}
	inb := B.Ult(i64, smt.Const(64, uint64(n)))
	if !r.branch(inb) {
		panic(r.fault(fmt.Sprintf("index out of range [symbolic] with length %d", n), ""))
	}
	return int(r.concretize(i64, "index"))
}

// indexScalars reads elems[idx] for scalar elements as an ite chain (no concretisation).
func (r *Run) indexScalars(elems []*smt.Term, idx *smt.Term, it types.Type) *smt.Term {
	B := r.B
	n := len(elems)
	i64 := B.Resize(idx, 64, isSigned(it))
	if i64.IsConst() {
		v := int64(i64.K)
		if v < 0 || v >= int64(n) {
			panic(r.fault(fmt.Sprintf("index out of range [%d] with length %d", v, n), ""))
		}
		return elems[v]
	}
	if !r.branch(B.Ult(i64, smt.Const(64, uint64(n)))) {
		panic(r.fault(fmt.Sprintf("index out of range [symbolic] with length %d", n), ""))
	}
	return r.selectChain(elems, i64)
}

// selectChain reads elems[idx]. Runs of identical elements are tested as ranges, and when the
// table has few distinct values the result is a short ite over "idx in set" conditions.
func (r *Run) selectChain(elems []*smt.Term, idx *smt.Term) *smt.Term {
	B := r.B
	type run struct {
		lo, hi int
		e      *smt.Term
	}
	var runs []run
	for j, e := range elems {
		if n := len(runs); n > 0 && runs[n-1].e == e {
			runs[n-1].hi = j
		} else {
			runs = append(runs, run{j, j, e})
		}
	}
	inRun := func(ru run) *smt.Term {
		if ru.lo == ru.hi {
			return B.Eq(idx, smt.Const(idx.W, uint64(ru.lo)))
		}
		c := B.Ule(idx, smt.Const(idx.W, uint64(ru.hi)))
		if ru.lo > 0 {
			c = B.And(B.Uge(idx, smt.Const(idx.W, uint64(ru.lo))), c)
		}
		return c
	}
	// group runs by element
	order := []*smt.Term{}
	conds := map[*smt.Term]*smt.Term{}
	count := map[*smt.Term]int{}
	for _, ru := range runs {
		if _, ok := conds[ru.e]; !ok {
			order = append(order, ru.e)
			conds[ru.e] = smt.False
		}
		conds[ru.e] = B.Or(conds[ru.e], inRun(ru))
		count[ru.e] += ru.hi - ru.lo + 1
	}
	// default = most frequent element
	def := order[0]
	for _, e := range order {
		if count[e] > count[def] {
			def = e
		}
	}
	res := def
	for i := len(order) - 1; i >= 0; i-- {
		e := order[i]
		if e == def {
			continue
		}
		res = B.Ite(conds[e], e, res)
	}
	return res
}

func (r *Run) indexAddr(x Value, idx *smt.Term, it types.Type, in *ssa.IndexAddr) Value {
	var a *Agg
	off, n := 0, 0
	switch x := x.(type) {
	case Slice:
		if x.V != nil {
			i := r.boundsCheck(idx, it, x.Len, false)
			return Ptr{V: &View{Root: x.V.Root, Off: x.V.Off + x.Off + i, T: types.Typ[types.Uint8]}}
		}
		if x.A == nil {
			// nil slice: any index is out of range
			r.boundsCheck(idx, it, 0, false)
		}
		a, off, n = x.A, x.Off, x.Len
	case Ptr: // pointer to array
		if x.V != nil {
			at := x.V.T.Underlying().(*types.Array)
			i := r.boundsCheck(idx, it, int(at.Len()), false)
			esz := int(sizes.Sizeof(at.Elem()))
			return Ptr{V: &View{Root: x.V.Root, Off: x.V.Off + i*esz, T: at.Elem()}}
		}
		if x.A == nil {
			r.nilDeref("index of nil array pointer")
		}
		arr, ok := r.rd(x.A)[x.I].(*Agg)
		if !ok {
			panic(unsupported("indexaddr: pointer to non-array"))
		}
		a, off, n = arr, 0, len(r.rd(arr))
	case Poison:
		panic(unsupported("index of unmodelled value: " + x.Why))
	default:
		panic(unsupported(fmt.Sprintf("indexaddr of %T", x)))
	}
	B := r.B
	i64 := B.Resize(idx, 64, isSigned(it))
	if i64.IsConst() {
		v := int64(i64.K)
		if v < 0 || v >= int64(n) {
			panic(r.fault(fmt.Sprintf("index out of range [%d] with length %d", v, n), ""))
		}
		return Ptr{A: a, I: off + int(v)}
	}
	if !r.branch(B.Ult(i64, smt.Const(64, uint64(n)))) {
		panic(r.fault(fmt.Sprintf("index out of range [symbolic] with length %d", n), ""))
	}
	// scalar elements: keep the index symbolic
	if n <= r.E.Cfg.SymIndexMax {
		if _, ok := isFlatInt(slotType(a, 0)); ok {
			return Ptr{A: a, I: off, N: off + n, SI: B.Add(i64, smt.Const(64, uint64(off)))}
		}
	}
	v := r.concretize(i64, "index")
	return Ptr{A: a, I: off + int(v)}
}

func (r *Run) sliceOp(in *ssa.Slice, fr *frame) Value {
	x := fr.get(in.X)
	B := r.B
	var lo, hi, max *smt.Term
	if in.Low != nil {
		lo = B.Resize(r.asInt(fr.get(in.Low)), 64, isSigned(in.Low.Type()))
	}
	if in.High != nil {
		hi = B.Resize(r.asInt(fr.get(in.High)), 64, isSigned(in.High.Type()))
	}
	if in.Max != nil {
		max = B.Resize(r.asInt(fr.get(in.Max)), 64, isSigned(in.Max.Type()))
	}
	var length, capacity int
	switch x := x.(type) {
	case Str:
		length, capacity = len(x.B), len(x.B)
	case Slice:
		length, capacity = x.Len, x.Cap
	case Ptr:
		if x.V != nil {
			at := x.V.T.Underlying().(*types.Array)
			length = int(at.Len())
		} else {
			if x.A == nil {
				r.nilDeref("slice of nil array pointer")
			}
			length = len(r.rd(r.rd(x.A)[x.I].(*Agg)))
		}
		capacity = length
	case Poison:
		panic(unsupported("slice of unmodelled value: " + x.Why))
	default:
		panic(unsupported(fmt.Sprintf("slice of %T", x)))
	}
	c64 := func(v int) *smt.Term { return smt.Const(64, uint64(v)) }
	if lo == nil {
		lo = c64(0)
	}
	_, isStr := x.(Str)
	if hi == nil {
		hi = c64(length)
	}
	hiLimit := capacity
	if isStr {
		hiLimit = length
	}
	if max == nil {
		max = c64(capacity)
	}
	// Go: 0 <= lo <= hi <= max <= cap  (for strings hi <= len)
	okc := B.AndN(B.Ule(lo, hi), B.Ule(hi, max), B.Ule(max, c64(hiLimit)))
	if okc.IsConst() {
		if okc.K == 0 {
			panic(r.fault(fmt.Sprintf("slice bounds out of range [%s:%s:%s] with capacity %d", showValue(lo), showValue(hi), showValue(max), hiLimit), ""))
		}
	} else if !r.branch(okc) {
		panic(r.fault(fmt.Sprintf("slice bounds out of range [symbolic] with capacity %d", hiLimit), ""))
	}
	l := int(r.concretize(lo, "slice low"))
	h := int(r.concretize(hi, "slice high"))
	m := int(r.concretize(max, "slice max"))
	switch x := x.(type) {
	case Str:
		return Str{x.B[l:h:h]}
	case Slice:
		if x.IsNil() {
			return Slice{}
		}
		return Slice{A: x.A, V: x.V, Off: x.Off + l, Len: h - l, Cap: m - l}
	case Ptr:
		if x.V != nil {
			at := x.V.T.Underlying().(*types.Array)
			if b, ok := at.Elem().Underlying().(*types.Basic); !ok || b.Kind() != types.Uint8 {
				panic(unsupported("slice of non-byte array view"))
			}
			return Slice{V: x.V, Off: l, Len: h - l, Cap: m - l}
		}
		arr := r.rd(x.A)[x.I].(*Agg)
		return Slice{A: arr, Off: l, Len: h - l, Cap: m - l}
	}
	panic("unreachable")
}

func (r *Run) typeAssert(in *ssa.TypeAssert, x Value) Value {
	ifc, ok := x.(Iface)
	if !ok {
		if p, ok := x.(Poison); ok {
			panic(unsupported("type assertion on unmodelled value: " + p.Why))
		}
		panic(unsupported(fmt.Sprintf("type assert on %T", x)))
	}
	at := in.AssertedType
	good := false
	var res Value
	if ifc.T != nil {
		if it, ok := at.Underlying().(*types.Interface); ok {
			if ifc.T == r.E.runtimeErrType {
				good = it.NumMethods() == 0
			} else {
				good = types.Implements(ifc.T, it) || types.Implements(types.NewPointer(ifc.T), it) && false
			}
			res = ifc
		} else {
			good = types.Identical(ifc.T, at)
			res = ifc.V
		}
	}
	if in.CommaOk {
		if !good {
			return Tuple{zero(at), smt.False}
		}
		return Tuple{res, smt.True}
	}
	if !good {
		have := "nil"
		if ifc.T != nil {
			have = ifc.T.String()
		}
		panic(r.fault(fmt.Sprintf("interface conversion: interface is %s, not %s", have, at), ""))
	}
	return res
}
