package interp

import (
	"fmt"
	"go/types"

	"symgo/smt"

	"golang.org/x/tools/go/ssa"
)

// Go 1.23 runtime size classes (runtime/sizeclasses.go), used so that append's capacity
// growth matches the native build (capacity decides whether a later append aliases).
var classToSize = []int{0, 8, 16, 24, 32, 48, 64, 80, 96, 112, 128, 144, 160, 176, 192, 208, 224, 240, 256, 288, 320, 352, 384, 416, 448, 480, 512, 576, 640, 704, 768, 896, 1024, 1152, 1280, 1408, 1536, 1792, 2048, 2304, 2688, 3072, 3200, 3456, 4096, 4864, 5120, 5376, 6144, 6528, 6784, 6912, 8192, 9472, 9728, 10240, 10880, 12288, 13568, 14336, 16384, 18432, 19072, 20480, 21760, 24576, 27264, 28672, 32768}

func roundupsize(size int, noscan bool) int {
	if size <= 32768-8 || (noscan && size <= 32768) {
		if !noscan && size > 512 {
			// malloc header for pointerful objects > 512 bytes
			size += 8
			for _, c := range classToSize {
				if c >= size {
					return c - 8
				}
			}
		}
		for _, c := range classToSize {
			if c >= size {
				return c
			}
		}
	}
	const page = 8192
	return (size + page - 1) / page * page
}

func hasPointers(t types.Type) bool {
	switch u := t.Underlying().(type) {
	case *types.Basic:
		return u.Info()&types.IsString != 0 || u.Kind() == types.UnsafePointer
	case *types.Struct:
		for i := 0; i < u.NumFields(); i++ {
			if hasPointers(u.Field(i).Type()) {
				return true
			}
		}
		return false
	case *types.Array:
		return hasPointers(u.Elem())
	}
	return true
}

// growCap mimics runtime.growslice's capacity computation.
func growCap(oldCap, newLen int, et types.Type) int {
	newcap := oldCap
	doublecap := newcap + newcap
	if newLen > doublecap {
		newcap = newLen
	} else {
		const threshold = 256
		if oldCap < threshold {
			newcap = doublecap
		} else {
			for {
				newcap += (newcap + 3*threshold) >> 2
				if uint(newcap) >= uint(newLen) {
					break
				}
			}
		}
	}
	esz := int(sizes.Sizeof(et))
	if esz == 0 {
		return newcap
	}
	mem := roundupsize(newcap*esz, !hasPointers(et))
	return mem / esz
}

func (r *Run) appendSlice(s Slice, elems []Value, et types.Type) Slice {
	if len(elems) == 0 {
		return s
	}
	if s.V != nil {
		panic(unsupported("append to byte view slice"))
	}
	newLen := s.Len + len(elems)
	if s.A != nil && newLen <= s.Cap {
		for i, e := range elems {
			r.store(Ptr{A: s.A, I: s.Off + s.Len + i}, e, et)
		}
		return Slice{A: s.A, Off: s.Off, Len: newLen, Cap: s.Cap}
	}
	nc := growCap(s.Cap, newLen, et)
	if nc < newLen {
		nc = newLen
	}
	if nc > r.E.Cfg.AllocCap*4 {
		r.allocTooBig(int64(nc))
	}
	a := newArray(et, nc)
	a.ID = r.newID()
	for i := 0; i < s.Len; i++ {
		r.store(Ptr{A: a, I: i}, r.sliceGet(s, i), et)
	}
	for i, e := range elems {
		r.store(Ptr{A: a, I: s.Len + i}, e, et)
	}
	return Slice{A: a, Len: newLen, Cap: nc}
}

func (r *Run) sliceElems(s Slice) []Value {
	out := make([]Value, s.Len)
	for i := range out {
		out[i] = r.sliceGet(s, i)
	}
	return out
}

func (r *Run) callBuiltin(b *ssa.Builtin, args []Value, fr *frame, in *ssa.Call) Value {
	for _, a := range args {
		if p, ok := a.(Poison); ok {
			switch b.Name() {
			case "print", "println":
			default:
				panic(unsupported("builtin " + b.Name() + " on unmodelled value: " + p.Why))
			}
		}
	}
	switch b.Name() {
	case "append":
		s := args[0].(Slice)
		var et types.Type
		if in != nil {
			et = in.Type().Underlying().(*types.Slice).Elem()
		} else if s.A != nil {
			et = slotType(s.A, 0)
		} else {
			et = types.Typ[types.Uint8]
		}
		switch y := args[1].(type) {
		case Slice:
			return r.appendSlice(s, r.sliceElems(y), et)
		case Str:
			es := make([]Value, len(y.B))
			for i, t := range y.B {
				es[i] = t
			}
			return r.appendSlice(s, es, et)
		}
		panic(unsupported("append of unexpected value"))
	case "copy":
		dst := args[0].(Slice)
		var src []Value
		switch y := args[1].(type) {
		case Slice:
			n := y.Len
			if dst.Len < n {
				n = dst.Len
			}
			y.Len = n
			if y.V != nil || (y.A != nil && isByteElem(y.A)) {
				bs := r.sliceBytes(y)
				src = make([]Value, len(bs))
				for i, b := range bs {
					src[i] = b
				}
			} else {
				src = r.sliceElems(y)
			}
		case Str:
			n := len(y.B)
			if dst.Len < n {
				n = dst.Len
			}
			src = make([]Value, n)
			for i := 0; i < n; i++ {
				src[i] = y.B[i]
			}
		}
		if dst.V != nil {
			bs := make([]*smt.Term, len(src))
			for i, v := range src {
				bs[i] = v.(*smt.Term)
			}
			if len(bs) > 0 {
				r.viewWrite(dst.V, dst.Off, bs)
			}
		} else {
			for i, v := range src {
				r.sliceSet(dst, i, v)
			}
		}
		return smt.Const(64, uint64(len(src)))
	case "len":
		switch x := args[0].(type) {
		case Str:
			return smt.Const(64, uint64(len(x.B)))
		case Slice:
			return smt.Const(64, uint64(x.Len))
		case *MapObj:
			return smt.Const(64, uint64(r.mapLen(x)))
		case *Agg:
			return smt.Const(64, uint64(len(x.E)))
		case Ptr:
			if x.V != nil {
				return smt.Const(64, uint64(x.V.T.Underlying().(*types.Array).Len()))
			}
			return smt.Const(64, uint64(len(r.rd(r.rd(x.A)[x.I].(*Agg)))))
		}
		panic(unsupported(fmt.Sprintf("len of %T", args[0])))
	case "cap":
		switch x := args[0].(type) {
		case Slice:
			return smt.Const(64, uint64(x.Cap))
		case *Agg:
			return smt.Const(64, uint64(len(x.E)))
		}
		panic(unsupported(fmt.Sprintf("cap of %T", args[0])))
	case "delete":
		m, _ := args[0].(*MapObj)
		r.mapDelete(m, args[1])
		return nil
	case "clear":
		switch x := args[0].(type) {
		case *MapObj:
			if x != nil {
				m := r.mapWr(x)
				m.keys, m.vals, m.eids, m.nsym = nil, nil, nil, 0
				m.idx = map[string]int{}
			}
		case Slice:
			for i := 0; i < x.Len; i++ {
				r.sliceSet(x, i, zero(slotType(x.A, 0)))
			}
		}
		return nil
	case "print", "println":
		return nil
	case "min", "max":
		t := in.Type()
		acc := args[0]
		for _, a := range args[1:] {
			switch x := acc.(type) {
			case *smt.Term:
				y := a.(*smt.Term)
				var lt *smt.Term // y < x
				if isSigned(t) {
					lt = r.B.Slt(y, x)
				} else {
					lt = r.B.Ult(y, x)
				}
				if b.Name() == "max" {
					if isSigned(t) {
						lt = r.B.Slt(x, y)
					} else {
						lt = r.B.Ult(x, y)
					}
				}
				acc = r.B.Ite(lt, y, x)
			case Float:
				y := a.(Float)
				if (b.Name() == "min" && y < x) || (b.Name() == "max" && y > x) {
					acc = y
				}
			default:
				panic(unsupported("min/max on " + t.String()))
			}
		}
		return acc
	case "recover":
		return fr.doRecover()
	case "ssa:wrapnilchk":
		p := args[0].(Ptr)
		if p.A == nil && p.V == nil {
			panic(r.fault("value method called using nil pointer", ""))
		}
		return p
	case "SliceData":
		sl := args[0].(Slice)
		if sl.V != nil {
			panic(unsupported("unsafe.SliceData of view"))
		}
		if sl.A == nil {
			return Ptr{}
		}
		return Ptr{A: sl.A, I: sl.Off, N: -7} // N=-7 marks "data pointer of a slice"
	case "StringData":
		st := args[0].(Str)
		return Ptr{A: &Agg{T: types.NewArray(types.Typ[types.Uint8], int64(len(st.B))), E: termsToValues(st.B)}, I: 0, N: -7}
	case "String":
		p := args[0].(Ptr)
		n := cint(args[1])
		if n == 0 {
			return Str{}
		}
		if p.A == nil {
			panic(r.fault("unsafe.String: ptr is nil and len is not zero", ""))
		}
		es := r.rd(p.A)
		out := make([]*smt.Term, n)
		for i := range out {
			out[i] = es[p.I+i].(*smt.Term)
		}
		r.noteAlias(Slice{A: p.A, Off: p.I, Len: n, Cap: n})
		return Str{out}
	case "Slice":
		p := args[0].(Ptr)
		n := cint(args[1])
		if p.A == nil {
			return Slice{}
		}
		return Slice{A: p.A, Off: p.I, Len: n, Cap: n}
	case "close":
		panic(unsupported("close of channel"))
	}
	panic(unsupported("builtin " + b.Name()))
}

func isByteElem(a *Agg) bool {
	if a.Box {
		return false
	}
	if at, ok := a.T.Underlying().(*types.Array); ok {
		if b, ok := at.Elem().Underlying().(*types.Basic); ok {
			return b.Kind() == types.Uint8
		}
	}
	return false
}

func termsToValues(ts []*smt.Term) []Value {
	out := make([]Value, len(ts))
	for i, t := range ts {
		out[i] = t
	}
	return out
}
