package interp

import (
	"fmt"
	"go/token"
	"go/types"
	"os"
	"sort"
	"strings"
	"sync"
	"time"

	"symgo/smt"

	"golang.org/x/tools/go/packages"
	"golang.org/x/tools/go/ssa"
	"golang.org/x/tools/go/ssa/ssautil"
)

type Config struct {
	RepoDir  string
	Overlay  map[string][]byte
	Patterns []string

	Prop         string   // property id, e.g. "C03"
	ActiveLabels []string // label prefixes that are asserted in this run
	KnownIDs     map[string]bool
	Params       map[string]int64
	Pkg          string // import path of the harness package
	Entry        string // harness function name

	Workers        int
	MaxSteps       int
	LoopCap        int
	AllocCap       int
	SymIndexMax    int
	MaxConcretize  int
	MaxPaths       int
	Deadline       time.Time
	StopAfterViolation time.Duration // stop exploring a job this long after its start once it has a violation (0: never)
	SolverPath     string
	SolverArgs     []string
	QueryTimeoutMs int

	Trace           bool
	PoisonExternals bool
	ReverseMaps     bool
	Clock           string // "const" or "sym"
	Samples         int    // number of passing paths to concretise as samples
	Seed            int64
	Concrete        map[string]uint64 // replay: fixed values for nondets (engine concrete mode)
	ConcreteChoices []int
	ConcreteSched   []int
	RecordQueries   bool
	NoMerge         bool
	FallbackMs      int        // time allowed to each fallback solver when the primary answers unknown (0: no fallback)
	FallbackSolvers [][]string // command lines, tried in order
	FallbackBudget  time.Duration // total time per job spent in fallback solvers (0: unlimited)
	CrossCheck      int // number of assertion queries per job kept for cross-solver re-checking
	SlowQuery       time.Duration
	SlowDir         string
	Negate          bool // twin run: vAssert conditions are negated (vacuity guard)
}

type Engine struct {
	Cfg   Config
	Prog  *ssa.Program
	Pkgs  []*ssa.Package
	IPkgs []*packages.Package

	globals        map[*ssa.Global]*Agg
	runtimeErrType types.Type
	harnessPkgs    map[*ssa.Package]bool
	funcCache      sync.Map
	initIDs        int
	fiType         types.Type
	InitLog        []string
	LoadTime       time.Duration
	InitTime       time.Duration

	mu      sync.Mutex
	cond    *sync.Cond
	queue   [][]Decision
	active  int
	stopped bool
	fallbackSpent time.Duration

	Sum Summary
}

type Summary struct {
	Paths         int
	ByStatus      map[string]int
	Violations    map[string][]Violation // by label, first few
	ViolCount     map[string]int
	AssertsSeen   map[string]int
	Reached       map[string]int
	Known         map[string]int
	Funcs         map[string]bool
	Intrinsics    map[string]bool
	Inconclusive  []string
	Problems      map[string]int // unsupported / budget messages
	Decisions     int
	Steps         int
	Queries       int
	QSat          int
	QUnsat        int
	QUnknown      int
	UnknownFeas   int
	SolverCrashRetries int
	Fallback      map[string]int // queries the primary solver left undecided and another solver decided: "solver verdict" -> count
	SolverTime    time.Duration
	MaxLoop       int
	Samples       []Sample
	Incomplete    string
	QueryScripts  []string
	Wall          time.Duration
	PathsPerLabel map[string]int
	ForkSites     map[string]int
	Cross         []CrossQuery
}

// Load loads the repository packages (with overlay) and builds SSA.
func Load(cfg Config) (*Engine, error) {
	t0 := time.Now()
	pcfg := &packages.Config{
		Mode:    packages.LoadAllSyntax,
		Dir:     cfg.RepoDir,
		Overlay: cfg.Overlay,
		Env:     append(os.Environ(), "GOFLAGS=-mod=mod", "GOPROXY=off", "GOSUMDB=off", "GOTOOLCHAIN=local", "CGO_ENABLED=0"),
		Fset:    token.NewFileSet(),
	}
	pats := cfg.Patterns
	if len(pats) == 0 {
		pats = []string{"./..."}
	}
	ipkgs, err := packages.Load(pcfg, pats...)
	if err != nil {
		return nil, err
	}
	var errs []string
	packages.Visit(ipkgs, nil, func(p *packages.Package) {
		for _, e := range p.Errors {
			errs = append(errs, e.Error())
		}
	})
	if len(errs) > 0 {
		return nil, fmt.Errorf("package load errors (harness may no longer type-check against the tree):\n%s", strings.Join(errs, "\n"))
	}
	prog, pkgs := ssautil.AllPackages(ipkgs, ssa.InstantiateGenerics|ssa.SanityCheckFunctions&0)
	prog.Build()
	e := &Engine{Cfg: cfg, Prog: prog, Pkgs: pkgs, IPkgs: ipkgs, globals: map[*ssa.Global]*Agg{}, harnessPkgs: map[*ssa.Package]bool{}}
	e.cond = sync.NewCond(&e.mu)
	e.runtimeErrType = types.NewNamed(types.NewTypeName(token.NoPos, nil, "runtimeError", nil), types.Typ[types.String], nil)
	for _, p := range pkgs {
		if p != nil && p.Pkg.Path() == cfg.Pkg {
			e.harnessPkgs[p] = true
		}
	}
	// any package that contains a zz_verif file is a harness package
	for i, ip := range ipkgs {
		for _, f := range ip.GoFiles {
			if strings.Contains(f, "zz_verif") && pkgs[i] != nil {
				e.harnessPkgs[pkgs[i]] = true
			}
		}
	}
	e.LoadTime = time.Since(t0)
	e.resetSummary()
	return e, nil
}

func (e *Engine) resetSummary() {
	e.Sum = Summary{ByStatus: map[string]int{}, Violations: map[string][]Violation{}, ViolCount: map[string]int{},
		AssertsSeen: map[string]int{}, Reached: map[string]int{}, Known: map[string]int{}, Funcs: map[string]bool{},
		Intrinsics: map[string]bool{}, Problems: map[string]int{}, PathsPerLabel: map[string]int{}, ForkSites: map[string]int{}}
}

func (e *Engine) isHarnessPkg(p *ssa.Package) bool { return e.harnessPkgs[p] }

func (e *Engine) labelActive(label string) bool {
	for _, p := range e.Cfg.ActiveLabels {
		if strings.HasPrefix(label, p) {
			return true
		}
	}
	return false
}

func (e *Engine) lookupFunc(pkgPath, name string) *ssa.Function {
	key := pkgPath + "." + name
	if v, ok := e.funcCache.Load(key); ok {
		return v.(*ssa.Function)
	}
	for _, p := range e.Prog.AllPackages() {
		if p.Pkg.Path() == pkgPath {
			if f := p.Func(name); f != nil {
				e.funcCache.Store(key, f)
				return f
			}
		}
	}
	return nil
}

func (e *Engine) lookupType(pkgPath, name string) types.Type {
	for _, p := range e.Prog.AllPackages() {
		if p.Pkg.Path() == pkgPath {
			if t := p.Type(name); t != nil {
				return t.Type()
			}
		}
	}
	return nil
}

// fallbackAllowed: second opinions are rationed per job (a tree whose queries are hopeless for every
// solver must not cost three time-outs per query).
func (e *Engine) fallbackAllowed() bool {
	e.mu.Lock()
	defer e.mu.Unlock()
	return e.Cfg.FallbackBudget == 0 || e.fallbackSpent < e.Cfg.FallbackBudget
}

func (e *Engine) noteFallbackTime(d time.Duration) {
	e.mu.Lock()
	e.fallbackSpent += d
	e.mu.Unlock()
}

func (e *Engine) noteFallback(solver, verdict string) {
	e.mu.Lock()
	defer e.mu.Unlock()
	if e.Sum.Fallback == nil {
		e.Sum.Fallback = map[string]int{}
	}
	e.Sum.Fallback[solver+" "+verdict]++
}

func (e *Engine) noteUnknownFeas() {
	e.mu.Lock()
	e.Sum.UnknownFeas++
	e.mu.Unlock()
}

func (e *Engine) push(p []Decision) {
	e.mu.Lock()
	e.queue = append(e.queue, p)
	e.mu.Unlock()
	e.cond.Signal()
}

// ---- package initialisation -------------------------------------------------------

var skipInit = map[string]bool{
	"runtime": true, "reflect": true, "internal/reflectlite": true, "runtime/debug": true, "runtime/pprof": true, "runtime/trace": true,
	"testing": true, "os/signal": true, "net": true, "net/http": true, "crypto/tls": true, "log": true,
	"gopkg.in/yaml.v3": true, "github.com/stretchr/testify/assert": true, "os/exec": true, "os/user": true,
	"internal/godebug": true, "internal/poll": true, "internal/cpu": true, "internal/syscall/unix": true,
	"encoding/json": true, "encoding/gob": true, "text/template": true, "html/template": true, "net/netip": false,
	"internal/testlog": true, "flag": false, "mime": true, "compress/flate": true, "hash/crc32": true,
	"vendor/golang.org/x/net/dns/dnsmessage": true, "crypto/x509": true, "math/rand": true, "math/rand/v2": true,
	"internal/bisect": true, "internal/godebugs": true, "encoding/xml": true, "go/token": true, "go/scanner": true,
	"github.com/davecgh/go-spew/spew": true, "github.com/pmezard/go-difflib/difflib": true,
	"github.com/stretchr/testify/assert/yaml": true, "gopkg.in/yaml.v2": true, "crypto": true,
}

// Init allocates globals and runs package initialisers concretely into the shared base heap.
func (e *Engine) Init() {
	t0 := time.Now()
	r := e.newRun(nil, nil)
	r.initPhase = true
	r.maxSteps = 400_000_000
	for _, p := range e.Prog.AllPackages() {
		for _, m := range p.Members {
			if g, ok := m.(*ssa.Global); ok {
				b := newBox(g.Type().Underlying().(*types.Pointer).Elem())
				b.ID = r.newID()
				e.globals[g] = b
			}
		}
	}
	// run the harness package's init; it recursively initialises its imports
	var roots []*ssa.Package
	for p := range e.harnessPkgs {
		roots = append(roots, p)
	}
	sort.Slice(roots, func(i, j int) bool { return roots[i].Pkg.Path() < roots[j].Pkg.Path() })
	for _, p := range roots {
		if f := p.Func("init"); f != nil {
			e.runInit(r, f)
		}
	}
	// freeze everything reachable from globals
	seen := map[interface{}]bool{}
	for _, g := range e.globals {
		freeze(g, seen)
	}
	e.initIDs = r.idc
	e.InitTime = time.Since(t0)
}

func (e *Engine) runInit(r *Run, f *ssa.Function) {
	defer func() {
		if rec := recover(); rec != nil {
			switch x := rec.(type) {
			case abort:
				e.InitLog = append(e.InitLog, fmt.Sprintf("init of %s incomplete: %s (in %s)", f.Pkg.Pkg.Path(), x.msg, r.lastFn))
			case targetPanic:
				e.InitLog = append(e.InitLog, fmt.Sprintf("init of %s panicked: %s %s", f.Pkg.Pkg.Path(), x.fault, showValue(x.v)))
			default:
				e.InitLog = append(e.InitLog, fmt.Sprintf("init of %s: engine error: %v", f.Pkg.Pkg.Path(), rec))
			}
			r.depth = 0
		}
	}()
	r.callFn(f, nil, nil, nil)
}

func freeze(v Value, seen map[interface{}]bool) {
	switch v := v.(type) {
	case *Agg:
		if v == nil || seen[v] {
			return
		}
		seen[v] = true
		v.Frozen = true
		for _, e := range v.E {
			freeze(e, seen)
		}
	case Ptr:
		if v.A != nil {
			// freeze the whole root object
			a := v.A
			for a.P != nil {
				a = a.P
			}
			freeze(a, seen)
		}
		if v.V != nil {
			freeze(v.V.Root, seen)
		}
	case Slice:
		if v.A != nil {
			freeze(v.A, seen)
		}
		if v.V != nil {
			freeze(v.V.Root, seen)
		}
	case *MapObj:
		if v == nil || seen[v] {
			return
		}
		seen[v] = true
		v.Frozen = true
		for i := range v.keys {
			freeze(v.keys[i], seen)
			freeze(v.vals[i], seen)
		}
	case Iface:
		freeze(v.V, seen)
	case *Closure:
		if v == nil || seen[v] {
			return
		}
		seen[v] = true
		for _, e := range v.Env {
			freeze(e, seen)
		}
	case Tuple:
		for _, e := range v {
			freeze(e, seen)
		}
	case *nativeObj:
		if v != nil && v.fields != nil {
			for _, e := range v.fields {
				freeze(e, seen)
			}
		}
	}
}

// ---- exploration ------------------------------------------------------------------

func (e *Engine) newRun(prefix []Decision, s *smt.Solver) *Run {
	r := &Run{E: e, B: smt.NewBuilder(), S: s, prefix: prefix, facts: map[*smt.Term]bool{},
		shadow: map[*Agg]*Agg{}, mshadow: map[*MapObj]*MapObj{}, occ: map[string]int{}, maxSteps: e.Cfg.MaxSteps,
		idc: e.initIDs, nthreads: 1, stubState: map[string]interface{}{}}
	r.res = &PathResult{Reached: map[string]int{}, AssertsSeen: map[string]int{}, Known: map[string]bool{}, Funcs: map[string]bool{}, Intrinsics: map[string]bool{}, ForkSites: map[string]int{}}
	return r
}

// Explore runs the harness entry over all feasible paths.
func (e *Engine) Explore() error {
	var entry *ssa.Function
	for p := range e.harnessPkgs {
		if p.Pkg.Path() == e.Cfg.Pkg {
			entry = p.Func(e.Cfg.Entry)
		}
	}
	if entry == nil {
		return fmt.Errorf("harness entry %s.%s not found", e.Cfg.Pkg, e.Cfg.Entry)
	}
	t0 := time.Now()
	e.queue = [][]Decision{nil}
	e.active = 0
	e.stopped = false
	var wg sync.WaitGroup
	nw := e.Cfg.Workers
	if nw <= 0 {
		nw = 1
	}
	errs := make(chan error, nw)
	for w := 0; w < nw; w++ {
		wg.Add(1)
		go func(w int) {
			defer wg.Done()
			s, err := smt.NewSolver(e.Cfg.SolverPath, e.Cfg.SolverArgs, e.Cfg.QueryTimeoutMs)
			if err != nil {
				errs <- err
				return
			}
			defer s.Close()
			var rec []string
			if e.Cfg.RecordQueries {
				s.Record = &rec
			}
			for {
				e.mu.Lock()
				for len(e.queue) == 0 && e.active > 0 && !e.stopped {
					e.cond.Wait()
				}
				if e.stopped || (len(e.queue) == 0 && e.active == 0) {
					e.mu.Unlock()
					e.cond.Broadcast()
					break
				}
				p := e.queue[len(e.queue)-1]
				e.queue = e.queue[:len(e.queue)-1]
				e.active++
				e.mu.Unlock()

				res := e.runPath(entry, p, s)

				e.mu.Lock()
				e.active--
				e.merge(res)
				if e.Cfg.MaxPaths > 0 && e.Sum.Paths >= e.Cfg.MaxPaths && !e.stopped {
					e.stopped = true
					e.Sum.Incomplete = fmt.Sprintf("path cap %d reached with %d prefixes still queued", e.Cfg.MaxPaths, len(e.queue))
				}
				if e.Cfg.StopAfterViolation > 0 && len(e.Sum.ViolCount) > 0 && time.Since(t0) > e.Cfg.StopAfterViolation && !e.stopped {
					// a violation is in hand and the job keeps growing (a change that breaks a property often
					// also multiplies paths): what is found gets confirmed and reported now
					e.stopped = true
					e.Sum.Incomplete = fmt.Sprintf("stopped %.0fs after the start with violations in hand and %d prefixes still queued", time.Since(t0).Seconds(), len(e.queue))
				}
				if !e.Cfg.Deadline.IsZero() && time.Now().After(e.Cfg.Deadline) && !e.stopped {
					e.stopped = true
					e.Sum.Incomplete = fmt.Sprintf("time budget reached with %d prefixes still queued", len(e.queue))
				}
				e.mu.Unlock()
				e.cond.Broadcast()
			}
			e.mu.Lock()
			e.Sum.Queries += s.Queries
			e.Sum.QSat += s.NSat
			e.Sum.QUnsat += s.NUnsat
			e.Sum.QUnknown += s.NUnknown
			e.Sum.SolverTime += s.Time
			e.mu.Unlock()
		}(w)
	}
	stopProgress := make(chan struct{})
	go func() {
		tk := time.NewTicker(10 * time.Second)
		defer tk.Stop()
		for {
			select {
			case <-stopProgress:
				return
			case <-tk.C:
				e.mu.Lock()
				fmt.Fprintf(os.Stderr, "  ... %s: %d paths, %d queued, %d active, %.0fs\n", e.Cfg.Entry, e.Sum.Paths, len(e.queue), e.active, time.Since(t0).Seconds())
				e.mu.Unlock()
			}
		}
	}()
	wg.Wait()
	close(stopProgress)
	select {
	case err := <-errs:
		return err
	default:
	}
	e.Sum.Wall = time.Since(t0)
	return nil
}

func (e *Engine) merge(res *PathResult) {
	s := &e.Sum
	if res.Status == "infeasible" {
		s.ByStatus["infeasible"]++
		s.Decisions += res.Decisions
		s.Steps += res.Steps
		return
	}
	s.Paths++
	s.ByStatus[res.Status]++
	s.Decisions += res.Decisions
	s.Steps += res.Steps
	if res.MaxLoop > s.MaxLoop {
		s.MaxLoop = res.MaxLoop
	}
	for _, v := range res.Violations {
		s.ViolCount[v.Label]++
		if len(s.Violations[v.Label]) < 3 {
			s.Violations[v.Label] = append(s.Violations[v.Label], v)
		}
	}
	for k, n := range res.Reached {
		s.Reached[k] += n
	}
	for k, n := range res.AssertsSeen {
		s.AssertsSeen[k] += n
		s.PathsPerLabel[k]++
	}
	for k := range res.Known {
		s.Known[k]++
	}
	for k := range res.Funcs {
		s.Funcs[k] = true
	}
	for k, n := range res.ForkSites {
		s.ForkSites[k] += n
	}
	if len(s.Cross) < e.Cfg.CrossCheck {
		s.Cross = append(s.Cross, res.Cross...)
	}
	for k := range res.Intrinsics {
		s.Intrinsics[k] = true
	}
	for _, m := range res.Inconcl {
		if len(s.Inconclusive) < 50 {
			s.Inconclusive = append(s.Inconclusive, m)
		}
	}
	switch res.Status {
	case "unsupported", "budget", "inconclusive", "deadlock", "engine-error":
		s.Problems[res.Status+": "+res.Msg]++
	}
	if res.Sample != nil && len(s.Samples) < e.Cfg.Samples {
		s.Samples = append(s.Samples, *res.Sample)
	}
}

// runPath executes one path (a decision prefix extended until the harness returns).
// runPath runs one path; a path that ends because the solver process died (not: timed out) is run
// again, up to twice, on the restarted solver.
func (e *Engine) runPath(entry *ssa.Function, prefix []Decision, s *smt.Solver) *PathResult {
	skip := 0
	for attempt := 0; ; attempt++ {
		res, pushed := e.runPathOnce(entry, prefix, s, skip)
		if res.Status == "inconclusive" && strings.Contains(res.Msg, "solver died") && attempt < 2 {
			skip = pushed
			e.mu.Lock()
			e.Sum.SolverCrashRetries++
			e.mu.Unlock()
			continue
		}
		return res
	}
}

func (e *Engine) runPathOnce(entry *ssa.Function, prefix []Decision, s *smt.Solver, skipPush int) (res *PathResult, pushed int) {
	r := e.newRun(prefix, s)
	r.skipPush = skipPush
	defer func() { pushed = r.pushed }()
	s.Reset()
	res = r.res
	res.Status = "ok"
	defer func() {
		res.Decisions = len(r.taken)
		res.Steps = r.steps
		rec := recover()
		if rec == nil {
			r.finishOK()
			return
		}
		switch x := rec.(type) {
		case abort:
			switch x.kind {
			case abInfeasible:
				res.Status = "infeasible"
			case abUnsupported:
				res.Status = "unsupported"
			case abBudget:
				res.Status = "budget"
			case abInconclusive:
				res.Status = "inconclusive"
			case abStop:
				res.Status = "stop"
			case abDeadlock:
				res.Status = "deadlock"
			}
			res.Msg = x.msg
			if x.kind == abBudget || x.kind == abDeadlock {
				r.reportEngineFinding(x)
			}
		case targetPanic:
			res.Status = "panic"
			res.Msg = x.fault
			if res.Msg == "" {
				res.Msg = "panic: " + r.panicText(x.v)
			}
			label := e.Cfg.Prop + "/panic"
			if e.labelActive(label) {
				func() {
					defer func() {
						if rr := recover(); rr != nil {
							res.Inconcl = append(res.Inconcl, "panic path: could not get model")
						}
					}()
					cr, m := r.check(r.allVars())
					if cr == smt.Sat {
						r.recordViolation(label, res.Msg+" "+x.pos, m)
					} else if cr == smt.Unknown {
						res.Inconcl = append(res.Inconcl, "panic path: solver unknown")
					}
				}()
			}
		default:
			res.Status = "engine-error"
			res.Msg = fmt.Sprint(rec)
			if e.Cfg.Trace {
				panic(rec)
			}
		}
		r.killThreads()
	}()
	r.runMain(entry)
	return res, r.pushed
}

// reportEngineFinding turns budget exhaustion / deadlock into a violation where the property says so.
func (r *Run) reportEngineFinding(x abort) {
	var label string
	switch x.kind {
	case abBudget:
		label = r.E.Cfg.Prop + "/unbounded-work"
	case abDeadlock:
		label = r.E.Cfg.Prop + "/deadlock"
	}
	if !r.E.labelActive(label) || !r.E.Cfg.budgetIsViolation(x.kind) {
		return
	}
	defer func() { recover() }()
	cr, m := r.check(r.allVars())
	if cr == smt.Sat {
		r.recordViolation(label, x.msg, m)
	}
}

func (c *Config) budgetIsViolation(k abortKind) bool {
	if k == abDeadlock {
		return true
	}
	return c.Params["budget_is_violation"] != 0
}

func (r *Run) panicText(v Value) string {
	if i, ok := v.(Iface); ok {
		if s, ok := i.V.(Str); ok {
			if cs, ok := concreteString(s); ok {
				return cs
			}
		}
		if i.T != nil {
			return "value of type " + i.T.String()
		}
	}
	return showValue(v)
}

// finishOK is called when the harness returned normally.
func (r *Run) finishOK() {
	if len(r.res.Inconcl) > 0 {
		r.res.Status = "inconclusive"
		r.res.Msg = r.res.Inconcl[0]
	}
	if r.E.Cfg.Samples > 0 && len(r.res.Violations) == 0 && r.wantSample() {
		func() {
			defer func() { recover() }()
			cr, m := r.check(r.allVars())
			if cr == smt.Sat {
				s := &Sample{Model: r.modelToNames(m), Choices: append([]int(nil), r.choices...), Obs: map[string]uint64{}}
				for _, o := range r.res.Observed {
					s.Obs[o.Name] = smt.Eval(o.T, m)
				}
				r.res.Sample = s
			}
		}()
	}
}

func (r *Run) wantSample() bool {
	// deterministic pseudo-random choice from seed and the decision vector
	h := uint64(r.E.Cfg.Seed)*0x9E3779B97F4A7C15 + 1
	for _, d := range r.taken {
		h = (h ^ uint64(d.Alt+1) ^ d.Val) * 0x100000001B3
	}
	r.E.mu.Lock()
	n := len(r.E.Sum.Samples)
	paths := r.E.Sum.Paths
	r.E.mu.Unlock()
	if n >= r.E.Cfg.Samples {
		return false
	}
	if paths < r.E.Cfg.Samples/2 {
		return true
	}
	return h%16 == 0
}

// SetConfig installs a new job configuration (the loaded program and base heap are kept).
func (e *Engine) SetConfig(c Config) {
	e.Cfg = c
	e.fallbackSpent = 0
	e.resetSummary()
}

var slowN int

func (e *Engine) dumpSlow(script string, d time.Duration, res string) {
	e.mu.Lock()
	slowN++
	n := slowN
	e.mu.Unlock()
	if n > 40 {
		return
	}
	os.MkdirAll(e.Cfg.SlowDir, 0o755)
	os.WriteFile(fmt.Sprintf("%s/slow_%03d_%s_%dms.smt2", e.Cfg.SlowDir, n, res, d.Milliseconds()), []byte(script), 0o644)
}

// SchedChoices extracts the scheduler decisions of a recorded path.
func SchedChoices(path []Decision) []int {
	var out []int
	for _, d := range path {
		if d.Kind == dkSched {
			out = append(out, int(d.Alt))
		}
	}
	return out
}

// fileInfoType is a synthetic named type standing for the FileInfo returned by the os.Stat stub.
func (e *Engine) fileInfoType() types.Type {
	e.mu.Lock()
	defer e.mu.Unlock()
	if e.fiType == nil {
		e.fiType = types.NewNamed(types.NewTypeName(token.NoPos, nil, "statStubFileInfo", nil), types.NewStruct(nil, nil), nil)
	}
	return e.fiType
}

var crossCounter int64

// wantCross samples assertion queries: every 37th non-trivial one until the quota is full.
func (e *Engine) wantCross() bool {
	e.mu.Lock()
	defer e.mu.Unlock()
	if len(e.Sum.Cross) >= e.Cfg.CrossCheck {
		return false
	}
	crossCounter++
	return crossCounter%37 == 1
}
