package interp

import (
	"go/types"
	"strconv"
	"strings"

	"symgo/smt"
)

// MapObj is an association list with pairwise-distinct keys (under the path condition),
// kept in insertion order.
type MapObj struct {
	keys   []Value
	vals   []Value
	eids   []int // unique entry ids (for iteration under mutation)
	nexte  int
	idx    map[string]int // canonical text of fully concrete keys -> position
	nsym   int            // number of keys that are not fully concrete
	KT, VT types.Type
	Frozen bool
	ID     int
}

func newMap(kt, vt types.Type, id int) *MapObj {
	return &MapObj{idx: map[string]int{}, KT: kt, VT: vt, ID: id}
}

func (r *Run) mapRd(m *MapObj) *MapObj {
	if m != nil && m.Frozen {
		if s := r.mshadow[m]; s != nil {
			return s
		}
	}
	return m
}

func (r *Run) mapWr(m *MapObj) *MapObj {
	if m.Frozen && !r.initPhase {
		s := r.mshadow[m]
		if s == nil {
			s = &MapObj{keys: append([]Value(nil), m.keys...), vals: append([]Value(nil), m.vals...), eids: append([]int(nil), m.eids...), nexte: m.nexte,
				idx: make(map[string]int, len(m.idx)), nsym: m.nsym, KT: m.KT, VT: m.VT, ID: m.ID}
			for k, v := range m.idx {
				s.idx[k] = v
			}
			r.mshadow[m] = s
		}
		return s
	}
	return m
}

// canon returns a canonical text for a fully concrete key, ok=false if any part is symbolic.
func canon(v Value, sb *strings.Builder) bool {
	switch v := v.(type) {
	case *smt.Term:
		if !v.IsConst() {
			return false
		}
		sb.WriteString(strconv.FormatUint(v.K, 16))
		sb.WriteByte('/')
		sb.WriteString(strconv.Itoa(int(v.W)))
		sb.WriteByte(';')
		return true
	case Str:
		sb.WriteByte('s')
		sb.WriteString(strconv.Itoa(len(v.B)))
		sb.WriteByte(':')
		for _, b := range v.B {
			if !b.IsConst() {
				return false
			}
			sb.WriteByte(byte(b.K))
		}
		sb.WriteByte(';')
		return true
	case Float:
		sb.WriteString(strconv.FormatFloat(float64(v), 'g', -1, 64))
		sb.WriteByte(';')
		return true
	case Iface:
		if v.T == nil {
			sb.WriteString("nil;")
			return true
		}
		sb.WriteString("i<")
		sb.WriteString(v.T.String())
		sb.WriteByte('>')
		return canon(v.V, sb)
	case *Agg:
		sb.WriteByte('{')
		for _, e := range v.E {
			if !canon(e, sb) {
				return false
			}
		}
		sb.WriteByte('}')
		return true
	case Ptr:
		if v.V != nil || v.SI != nil {
			return false
		}
		if v.A == nil {
			sb.WriteString("p0;")
			return true
		}
		sb.WriteString("p")
		sb.WriteString(strconv.Itoa(v.A.ID))
		sb.WriteByte('.')
		sb.WriteString(strconv.Itoa(v.I))
		sb.WriteByte(';')
		return v.A.ID != 0
	}
	return false
}

// mapFind locates key in m. It returns the position, or -1 if absent.
// A symbolic key forks once per candidate entry (and once for "absent").
func (r *Run) mapFind(m *MapObj, key Value) int {
	if m == nil {
		return -1
	}
	var sb strings.Builder
	conc := canon(key, &sb)
	if conc && m.nsym == 0 {
		if i, ok := m.idx[sb.String()]; ok {
			return i
		}
		return -1
	}
	// slow path: compare against every present key
	var cands []int
	var conds []*smt.Term
	for i, k := range m.keys {
		e := r.valueEq(key, k)
		if e.IsFalse() {
			continue
		}
		if e.IsTrue() {
			return i
		}
		cands = append(cands, i)
		conds = append(conds, e)
	}
	if len(cands) == 0 {
		return -1
	}
	absent := smt.True
	for _, c := range conds {
		absent = r.B.And(absent, r.B.Not(c))
	}
	alts := append(append([]*smt.Term(nil), conds...), absent)
	ch := r.decide(dkMapKey, alts)
	if ch == len(cands) {
		return -1
	}
	return cands[ch]
}

// mapAccess records a read or write of the map as one location for the race detector.
func (r *Run) mapAccess(m *MapObj, write bool) {
	if r.nthreads <= 1 || m == nil {
		return
	}
	if r.mapLocs == nil {
		r.mapLocs = map[*MapObj]*Agg{}
	}
	a := r.mapLocs[m]
	if a == nil {
		a = &Agg{ID: m.ID, E: make([]Value, 1)}
		r.mapLocs[m] = a
	}
	r.recordAccess(a, 0, write)
}

func (r *Run) mapLookup(m *MapObj, key Value) (Value, bool) {
	r.mapAccess(m, false)
	m = r.mapRd(m)
	i := r.mapFind(m, key)
	if i < 0 {
		return nil, false
	}
	return m.vals[i], true
}

func (r *Run) mapUpdate(m *MapObj, key, val Value) {
	if m == nil {
		panic(r.fault("assignment to entry in nil map", ""))
	}
	r.mapAccess(m, true)
	i := r.mapFind(r.mapRd(m), key)
	m = r.mapWr(m)
	if i >= 0 {
		m.vals[i] = val
		return
	}
	var sb strings.Builder
	if canon(key, &sb) {
		m.idx[sb.String()] = len(m.keys)
	} else {
		m.nsym++
	}
	m.keys = append(m.keys, key)
	m.vals = append(m.vals, val)
	m.eids = append(m.eids, m.nexte)
	m.nexte++
}

func (r *Run) mapDelete(m *MapObj, key Value) {
	if m == nil {
		return
	}
	r.mapAccess(m, true)
	i := r.mapFind(r.mapRd(m), key)
	if i < 0 {
		return
	}
	m = r.mapWr(m)
	var sb strings.Builder
	if canon(m.keys[i], &sb) {
		delete(m.idx, sb.String())
	} else {
		m.nsym--
	}
	m.keys = append(m.keys[:i:i], m.keys[i+1:]...)
	m.vals = append(m.vals[:i:i], m.vals[i+1:]...)
	m.eids = append(m.eids[:i:i], m.eids[i+1:]...)
	for k, p := range m.idx {
		if p > i {
			m.idx[k] = p - 1
		}
	}
}

func (r *Run) mapLen(m *MapObj) int {
	r.mapAccess(m, false)
	m = r.mapRd(m)
	if m == nil {
		return 0
	}
	return len(m.keys)
}

// mapIter is the state of a range over a map (snapshot of the keys at Range time).
type mapIter struct {
	m    *MapObj
	eids []int
	pos  int
	hint int
}

// next returns the next live entry of the iteration, or ok=false at the end.
func (r *Run) mapNext(it *mapIter) (k, v Value, ok bool) {
	r.mapAccess(it.m, false)
	m := r.mapRd(it.m)
	for it.pos < len(it.eids) {
		e := it.eids[it.pos]
		it.pos++
		p := -1
		if it.hint < len(m.eids) && m.eids[it.hint] == e {
			p = it.hint
		} else {
			for j, x := range m.eids {
				if x == e {
					p = j
					break
				}
			}
		}
		if p < 0 {
			continue // deleted meanwhile
		}
		it.hint = p + 1
		return m.keys[p], m.vals[p], true
	}
	return nil, nil, false
}

// strIter is the state of a range over a string.
type strIter struct {
	s   Str
	pos int
}
