// Package interp is a symbolic interpreter for go/ssa.
package interp

import (
	"fmt"
	"go/types"
	"strings"

	"symgo/smt"

	"golang.org/x/tools/go/ssa"
)

// Value is one of:
//
//	*smt.Term    bool and integer scalars (W==0 bool)
//	Float        concrete float
//	Str          string with concrete length and per-byte terms
//	Ptr          pointer (A==nil && V==nil is the nil pointer)
//	Slice        slice header (concrete)
//	*MapObj      map (nil *MapObj is the nil map)
//	Iface        interface value (T==nil is the nil interface)
//	*Closure     function value (nil *Closure is the nil func)
//	*Agg         struct or array value (immutable when held in a register)
//	Tuple        multiple results
//	Poison       result of a call the engine cannot model
//	Chan         unsupported channel placeholder
type Value interface{}

type Float float64

type Str struct{ B []*smt.Term }

type Ptr struct {
	A  *Agg
	I  int
	SI *smt.Term // symbolic absolute index into A (scalar elements only), ranging over [I, N)
	N  int
	V  *View
}

// View is a byte-offset reinterpretation (result of an unsafe.Pointer round trip).
type View struct {
	Root *Agg
	Off  int
	T    types.Type
}

type Slice struct {
	A             *Agg
	Off, Len, Cap int
	V             *View // byte view slice (element type of width 1)
}

func (s Slice) IsNil() bool { return s.A == nil && s.V == nil }

type Iface struct {
	T types.Type
	V Value
}

type Closure struct {
	Fn  *ssa.Function
	Env []Value
	// bound method / builtin support
	Builtin *ssa.Builtin
	Native  func(r *Run, args []Value) Value
}

type Tuple []Value

type Poison struct{ Why string }

type Chan struct{ id int }

// Agg is a struct or array stored in memory (mutable) or held as an SSA value (treated as immutable).
// A box is a one-element Agg created by Alloc/global for a variable of type T.
type Agg struct {
	E      []Value
	T      types.Type // struct/array type; for a box the element type
	Box    bool
	P      *Agg // parent aggregate when stored inline in memory
	PI     int
	Frozen bool // part of the shared post-init heap: copy on write
	ID     int
}

var sizes = types.SizesFor("gc", "amd64")

func isFlatInt(t types.Type) (w uint8, ok bool) {
	if b, ok := t.Underlying().(*types.Basic); ok {
		switch b.Kind() {
		case types.Bool:
			return 0, true
		case types.Int8, types.Uint8:
			return 8, true
		case types.Int16, types.Uint16:
			return 16, true
		case types.Int32, types.Uint32:
			return 32, true
		case types.Int, types.Uint, types.Int64, types.Uint64, types.Uintptr:
			return 64, true
		case types.UntypedBool:
			return 0, true
		case types.UntypedInt, types.UntypedRune:
			return 64, true
		}
	}
	return 0, false
}

func isSigned(t types.Type) bool {
	if b, ok := t.Underlying().(*types.Basic); ok {
		return b.Info()&types.IsInteger != 0 && b.Info()&types.IsUnsigned == 0
	}
	return false
}

func isFloat(t types.Type) bool {
	b, ok := t.Underlying().(*types.Basic)
	return ok && b.Info()&types.IsFloat != 0
}

func isString(t types.Type) bool {
	b, ok := t.Underlying().(*types.Basic)
	return ok && b.Info()&types.IsString != 0
}

func isUnsafePtr(t types.Type) bool {
	b, ok := t.Underlying().(*types.Basic)
	return ok && b.Kind() == types.UnsafePointer
}

func isAggType(t types.Type) bool {
	switch t.Underlying().(type) {
	case *types.Struct, *types.Array:
		return true
	}
	return false
}

// zero returns the zero value of type t. Aggregates are fresh.
func zero(t types.Type) Value {
	switch u := t.Underlying().(type) {
	case *types.Basic:
		if w, ok := isFlatInt(t); ok {
			return smt.Const(w, 0)
		}
		switch {
		case u.Info()&types.IsFloat != 0:
			return Float(0)
		case u.Info()&types.IsString != 0:
			return Str{}
		case u.Kind() == types.UnsafePointer:
			return Ptr{}
		case u.Kind() == types.UntypedNil:
			return Iface{}
		}
		panic(unsupported("zero of basic type " + t.String()))
	case *types.Pointer:
		return Ptr{}
	case *types.Slice:
		return Slice{}
	case *types.Map:
		return (*MapObj)(nil)
	case *types.Interface:
		return Iface{}
	case *types.Signature:
		return (*Closure)(nil)
	case *types.Chan:
		return Chan{}
	case *types.Struct:
		a := &Agg{T: t, E: make([]Value, u.NumFields())}
		for i := range a.E {
			a.E[i] = zero(u.Field(i).Type())
			if c, ok := a.E[i].(*Agg); ok {
				c.P, c.PI = a, i
			}
		}
		return a
	case *types.Array:
		n := int(u.Len())
		a := &Agg{T: t, E: make([]Value, n)}
		et := u.Elem()
		if isAggType(et) {
			for i := range a.E {
				c := zero(et).(*Agg)
				c.P, c.PI = a, i
				a.E[i] = c
			}
		} else {
			z := zero(et)
			for i := range a.E {
				a.E[i] = z
			}
		}
		return a
	case *types.Tuple:
		tu := make(Tuple, u.Len())
		for i := range tu {
			tu[i] = zero(u.At(i).Type())
		}
		return tu
	case *types.TypeParam:
		panic(unsupported("zero of type parameter"))
	}
	panic(unsupported("zero of " + t.String()))
}

// newBox allocates a variable of type t.
func newBox(t types.Type) *Agg {
	b := &Agg{T: t, Box: true, E: make([]Value, 1)}
	b.E[0] = zero(t)
	if c, ok := b.E[0].(*Agg); ok {
		c.P, c.PI = b, 0
	}
	return b
}

// newArray allocates a backing array of n elements of type et.
func newArray(et types.Type, n int) *Agg {
	return zero(types.NewArray(et, int64(n))).(*Agg)
}

// slotType is the static type of slot i of a.
func slotType(a *Agg, i int) types.Type {
	if a.Box {
		return a.T
	}
	switch u := a.T.Underlying().(type) {
	case *types.Struct:
		return u.Field(i).Type()
	case *types.Array:
		return u.Elem()
	}
	panic("slotType: bad agg type")
}

// ---- engine-level aborts (never seen by the interpreted program) --------------------

type abortKind int

const (
	abUnsupported  abortKind = iota
	abInfeasible             // assumption made the path infeasible: silently dropped
	abBudget                 // instruction/unwinding budget exhausted
	abInconclusive           // solver gave up on something that matters
	abStop                   // harness asked to stop (vStop) or assertion failed terminally
	abDeadlock
)

type abort struct {
	kind abortKind
	msg  string
}

func unsupported(msg string) abort { return abort{abUnsupported, msg} }

// targetPanic is a panic of the interpreted program (explicit or a run-time fault).
type targetPanic struct {
	v     Value // the panic value as a Go interface value (Iface)
	fault string
	pos   string
}

// ---- debugging ---------------------------------------------------------------------

func showValue(v Value) string {
	switch v := v.(type) {
	case nil:
		return "<nil>"
	case *smt.Term:
		if v.IsConst() {
			if v.W == 0 {
				return fmt.Sprint(v.K == 1)
			}
			return fmt.Sprint(v.K)
		}
		return v.String()
	case Str:
		var sb strings.Builder
		sb.WriteByte('"')
		for _, b := range v.B {
			if b.IsConst() {
				c := byte(b.K)
				if c >= 0x20 && c < 0x7f && c != '"' && c != '\\' {
					sb.WriteByte(c)
				} else {
					fmt.Fprintf(&sb, "\\x%02x", c)
				}
			} else {
				sb.WriteString("\\?")
			}
		}
		sb.WriteByte('"')
		return sb.String()
	case Ptr:
		if v.A == nil && v.V == nil {
			return "nil"
		}
		if v.V != nil {
			return fmt.Sprintf("&view(%d+%d:%s)", v.V.Root.ID, v.V.Off, v.V.T)
		}
		return fmt.Sprintf("&%d[%d]", v.A.ID, v.I)
	case Slice:
		if v.IsNil() {
			return "nil-slice"
		}
		return fmt.Sprintf("slice(off=%d,len=%d,cap=%d)", v.Off, v.Len, v.Cap)
	case Iface:
		if v.T == nil {
			return "nil-iface"
		}
		return fmt.Sprintf("iface(%s: %s)", v.T, showValue(v.V))
	case *Agg:
		var sb strings.Builder
		sb.WriteByte('{')
		for i, e := range v.E {
			if i > 8 {
				sb.WriteString("…")
				break
			}
			if i > 0 {
				sb.WriteByte(' ')
			}
			sb.WriteString(showValue(e))
		}
		sb.WriteByte('}')
		return sb.String()
	case Tuple:
		var sb strings.Builder
		sb.WriteByte('(')
		for i, e := range v {
			if i > 0 {
				sb.WriteString(", ")
			}
			sb.WriteString(showValue(e))
		}
		sb.WriteByte(')')
		return sb.String()
	case Poison:
		return "poison(" + v.Why + ")"
	case *MapObj:
		if v == nil {
			return "nil-map"
		}
		return fmt.Sprintf("map#%d(len %d)", v.ID, len(v.keys))
	case *Closure:
		if v == nil {
			return "nil-func"
		}
		if v.Fn != nil {
			return "func " + v.Fn.String()
		}
		return "func(native)"
	}
	return fmt.Sprintf("%T", v)
}

func mkStr(s string) Str {
	b := make([]*smt.Term, len(s))
	for i := 0; i < len(s); i++ {
		b[i] = smt.Const(8, uint64(s[i]))
	}
	return Str{b}
}

// concreteString returns the Go string if all bytes are constants.
func concreteString(s Str) (string, bool) {
	buf := make([]byte, len(s.B))
	for i, b := range s.B {
		if !b.IsConst() {
			return "", false
		}
		buf[i] = byte(b.K)
	}
	return string(buf), true
}
