package interp

import (
	"fmt"
	"go/types"
	"strings"

	"symgo/smt"

	"golang.org/x/tools/go/ssa"
)

// String/byte search intrinsics (the real ones are assembly or depend on CPU feature flags).

// indexOf returns the index of the first occurrence of sub in s as a term (-1 if none).
func (r *Run) indexOf(s, sub []*smt.Term) *smt.Term {
	B := r.B
	n, m := len(s), len(sub)
	if m == 0 {
		return smt.Const(64, 0)
	}
	res := smt.Const(64, ^uint64(0))
	for i := n - m; i >= 0; i-- {
		match := smt.True
		for k := 0; k < m; k++ {
			match = B.And(match, B.Eq(s[i+k], sub[k]))
			if match.IsFalse() {
				break
			}
		}
		res = B.Ite(match, smt.Const(64, uint64(i)), res)
	}
	return res
}

func (r *Run) lastIndexOf(s, sub []*smt.Term) *smt.Term {
	B := r.B
	n, m := len(s), len(sub)
	if m == 0 {
		return smt.Const(64, uint64(n))
	}
	res := smt.Const(64, ^uint64(0))
	for i := 0; i+m <= n; i++ {
		match := smt.True
		for k := 0; k < m; k++ {
			match = B.And(match, B.Eq(s[i+k], sub[k]))
			if match.IsFalse() {
				break
			}
		}
		res = B.Ite(match, smt.Const(64, uint64(i)), res)
	}
	return res
}

func (r *Run) countOf(s, sub []*smt.Term) *smt.Term {
	B := r.B
	if len(sub) == 0 {
		// number of runes + 1: only for concrete ASCII
		for _, b := range s {
			if !b.IsConst() || b.K >= 0x80 {
				panic(unsupported("strings.Count with empty separator on symbolic/non-ASCII string"))
			}
		}
		return smt.Const(64, uint64(len(s)+1))
	}
	if len(sub) == 1 {
		cnt := smt.Const(64, 0)
		for _, b := range s {
			cnt = B.Add(cnt, B.Ite(B.Eq(b, sub[0]), smt.Const(64, 1), smt.Const(64, 0)))
		}
		return cnt
	}
	// non-overlapping count: sequential scan with forks on symbolic matches
	cnt := 0
	for i := 0; i+len(sub) <= len(s); {
		match := smt.True
		for k := range sub {
			match = B.And(match, B.Eq(s[i+k], sub[k]))
		}
		if r.branch(match) {
			cnt++
			i += len(sub)
		} else {
			i++
		}
	}
	return smt.Const(64, uint64(cnt))
}

func (r *Run) bytesOf(v Value) []*smt.Term {
	switch v := v.(type) {
	case Str:
		return v.B
	case Slice:
		return r.sliceBytes(v)
	case Poison:
		panic(unsupported("string operation on unmodelled value: " + v.Why))
	}
	panic(unsupported(fmt.Sprintf("bytesOf %T", v)))
}

func (r *Run) bytesEqual(a, b []*smt.Term) *smt.Term { return r.strEq(Str{a}, Str{b}) }

func init() {
	idx := func(r *Run, _ *frame, _ *ssa.Function, args []Value) Value {
		return r.indexOf(r.bytesOf(args[0]), r.bytesOf(args[1]))
	}
	idxByte := func(r *Run, _ *frame, _ *ssa.Function, args []Value) Value {
		return r.indexOf(r.bytesOf(args[0]), []*smt.Term{r.asInt(args[1])})
	}
	reg("strings.Index", idx)
	reg("bytes.Index", idx)
	reg("internal/bytealg.IndexString", idx)
	reg("internal/bytealg.Index", idx)
	reg("internal/stringslite.Index", idx)
	reg("strings.IndexByte", idxByte)
	reg("bytes.IndexByte", idxByte)
	reg("internal/bytealg.IndexByteString", idxByte)
	reg("internal/bytealg.IndexByte", idxByte)
	reg("internal/stringslite.IndexByte", idxByte)
	reg("strings.LastIndex", func(r *Run, _ *frame, _ *ssa.Function, args []Value) Value {
		return r.lastIndexOf(r.bytesOf(args[0]), r.bytesOf(args[1]))
	})
	lastByte := func(r *Run, _ *frame, _ *ssa.Function, args []Value) Value {
		return r.lastIndexOf(r.bytesOf(args[0]), []*smt.Term{r.asInt(args[1])})
	}
	reg("strings.LastIndexByte", lastByte)
	reg("bytes.LastIndexByte", lastByte)
	reg("internal/bytealg.LastIndexByteString", lastByte)
	reg("internal/bytealg.LastIndexByte", lastByte)
	cnt := func(r *Run, _ *frame, _ *ssa.Function, args []Value) Value {
		return r.countOf(r.bytesOf(args[0]), r.bytesOf(args[1]))
	}
	reg("strings.Count", cnt)
	reg("bytes.Count", cnt)
	cntByte := func(r *Run, _ *frame, _ *ssa.Function, args []Value) Value {
		return r.countOf(r.bytesOf(args[0]), []*smt.Term{r.asInt(args[1])})
	}
	reg("internal/bytealg.CountString", cntByte)
	reg("internal/bytealg.Count", cntByte)
	eq := func(r *Run, _ *frame, _ *ssa.Function, args []Value) Value {
		return r.bytesEqual(r.bytesOf(args[0]), r.bytesOf(args[1]))
	}
	reg("bytes.Equal", eq)
	reg("internal/bytealg.Equal", eq)
	cmp := func(r *Run, _ *frame, _ *ssa.Function, args []Value) Value {
		a, b := Str{r.bytesOf(args[0])}, Str{r.bytesOf(args[1])}
		lt := r.strLess(a, b, false)
		e := r.strEq(a, b)
		return r.B.Ite(e, smt.Const(64, 0), r.B.Ite(lt, smt.Const(64, ^uint64(0)), smt.Const(64, 1)))
	}
	reg("bytes.Compare", cmp)
	reg("internal/bytealg.Compare", cmp)
	reg("internal/bytealg.CompareString", cmp)
	reg("strings.Compare", cmp)
	reg("internal/bytealg.MakeNoZero", func(r *Run, _ *frame, _ *ssa.Function, args []Value) Value {
		n := r.allocSize(r.asInt(args[0]), "makeslice: len out of range")
		a := newArray(types.Typ[types.Uint8], n)
		a.ID = r.newID()
		return Slice{A: a, Len: n, Cap: n}
	})
	ident := func(r *Run, _ *frame, _ *ssa.Function, args []Value) Value { return args[0] }
	reg("internal/abi.NoEscape", ident)
	reg("internal/abi.Escape", ident)
	reg("strings.Clone", ident)
	reg("internal/stringslite.Clone", ident)

	// ---- strconv: decimal formatting is relational (DESIGN.md 2.4) ----
	fmtInt := func(signed bool) Intrinsic {
		return func(r *Run, caller *frame, fn *ssa.Function, args []Value) Value {
			x := r.asInt(args[0])
			base := 10
			if len(args) > 1 {
				bt := r.asInt(args[1])
				if !bt.IsConst() {
					panic(unsupported("symbolic base"))
				}
				base = int(bt.K)
			}
			return Str{r.formatBase(x, signed, base)}
		}
	}
	reg("strconv.Itoa", fmtInt(true))
	reg("strconv.FormatInt", fmtInt(true))
	reg("strconv.FormatUint", fmtInt(false))
	appendInt := func(signed bool) Intrinsic {
		return func(r *Run, caller *frame, fn *ssa.Function, args []Value) Value {
			dst := args[0].(Slice)
			bt := r.asInt(args[2])
			if !bt.IsConst() {
				panic(unsupported("symbolic base"))
			}
			ds := r.formatBase(r.asInt(args[1]), signed, int(bt.K))
			es := make([]Value, len(ds))
			for i, d := range ds {
				es[i] = d
			}
			return r.appendSlice(dst, es, types.Typ[types.Uint8])
		}
	}
	reg("strconv.AppendInt", appendInt(true))
	reg("strconv.AppendUint", appendInt(false))

	// ---- uninterpreted (but injective, concrete-length) renderings ----
	reg("(net.IP).String", func(r *Run, _ *frame, _ *ssa.Function, args []Value) Value {
		bs := r.bytesOf(args[0])
		return Str{append(append(mkStr("ip[").B, r.hexOf(bs)...), smt.Const(8, ']'))}
	})
	reg("(time.Time).String", func(r *Run, _ *frame, _ *ssa.Function, args []Value) Value {
		t := args[0].(*Agg)
		es := r.rd(t)
		wall, ext := es[0].(*smt.Term), es[1].(*smt.Term)
		var bs []*smt.Term
		for _, w := range []*smt.Term{ext, wall} {
			for k := 7; k >= 0; k-- {
				bs = append(bs, r.B.Extract(w, uint8(8*k+7), uint8(8*k)))
			}
		}
		return Str{append(append(mkStr("time[").B, r.hexOf(bs)...), smt.Const(8, ']'))}
	})
}

// hexOf renders bytes as lower-case hex text (two characters each).
func (r *Run) hexOf(bs []*smt.Term) []*smt.Term {
	B := r.B
	out := make([]*smt.Term, 0, 2*len(bs))
	dig := func(n *smt.Term) *smt.Term { // n is 4 bits
		d := B.ZExt(n, 8)
		return B.Ite(B.Ult(d, smt.Const(8, 10)), B.Add(d, smt.Const(8, '0')), B.Add(d, smt.Const(8, 'a'-10)))
	}
	for _, b := range bs {
		out = append(out, dig(B.Extract(b, 7, 4)), dig(B.Extract(b, 3, 0)))
	}
	return out
}

// formatBase renders an integer in the given base (10 relational, 2/8/16 bit slicing).
func (r *Run) formatBase(x *smt.Term, signed bool, base int) []*smt.Term {
	v := verbSpec{}
	switch base {
	case 10:
		v.verb = 'd'
	case 16:
		v.verb = 'x'
	case 8:
		v.verb = 'o'
	case 2:
		v.verb = 'b'
	default:
		if x.IsConst() {
			if signed {
				return mkStr(strings.ToLower(fmt.Sprint(formatAny(x.Signed(), base)))).B
			}
			return mkStr(formatAnyU(x.K, base)).B
		}
		panic(unsupported(fmt.Sprintf("symbolic integer in base %d", base)))
	}
	return r.fmtInt(x, signed, v, fmtOpts{allowFork: true})
}

func formatAny(v int64, base int) string {
	if v < 0 {
		return "-" + formatAnyU(uint64(-v), base)
	}
	return formatAnyU(uint64(v), base)
}

func formatAnyU(v uint64, base int) string {
	const digits = "0123456789abcdefghijklmnopqrstuvwxyz"
	if v == 0 {
		return "0"
	}
	var b []byte
	for v > 0 {
		b = append([]byte{digits[v%uint64(base)]}, b...)
		v /= uint64(base)
	}
	return string(b)
}
