package interp

import (
	"fmt"

	"symgo/smt"

	"golang.org/x/tools/go/ssa"
)

// Thread is one engine thread (a goroutine of the interpreted program). Each runs in its
// own Go goroutine; exactly one is running at any time, control is handed over explicitly.
type Thread struct {
	id      int
	wake    chan struct{}
	done    bool
	blocked func() bool // non-nil while waiting: returns true when it may proceed
	vc      []int       // vector clock
	err     interface{} // abort/panic captured in the thread
	started bool
	fn      Value
	args    []Value
}

type accessRec struct {
	idx   int
	write bool
	tid   int
	vc    []int
	pos   string
}

func (r *Run) runMain(entry *ssa.Function) {
	main := &Thread{id: 0, vc: []int{0}, started: true, wake: make(chan struct{})}
	r.threads = []*Thread{main}
	r.cur = main
	r.callFn(entry, nil, nil, nil)
	// main returned: all other threads must have finished or be joined by the harness
	for _, t := range r.threads[1:] {
		if !t.done {
			panic(unsupported("harness returned while threads are still running (missing vJoin)"))
		}
	}
}

// spawn creates a new engine thread.
func (r *Run) spawn(fv Value, args []Value) {
	t := &Thread{id: len(r.threads), wake: make(chan struct{}), fn: fv, args: args}
	// happens-before: creation (the child sees what the parent did before the go statement, not after)
	t.vc = make([]int, len(r.threads)+1)
	copy(t.vc, r.cur.vc)
	r.tick()
	for _, o := range r.threads {
		for len(o.vc) < len(r.threads)+1 {
			o.vc = append(o.vc, 0)
		}
	}
	r.threads = append(r.threads, t)
	r.nthreads++
	r.yield("go")
}

func (r *Run) tick() {
	t := r.cur
	for len(t.vc) <= t.id {
		t.vc = append(t.vc, 0)
	}
	t.vc[t.id]++
}

func joinVC(dst *[]int, src []int) {
	for len(*dst) < len(src) {
		*dst = append(*dst, 0)
	}
	for i, v := range src {
		if v > (*dst)[i] {
			(*dst)[i] = v
		}
	}
}

func vcLeq(a, b []int) bool {
	for i, v := range a {
		bv := 0
		if i < len(b) {
			bv = b[i]
		}
		if v > bv {
			return false
		}
	}
	return true
}

// runnable lists threads that can take a step now.
func (r *Run) runnable() []*Thread {
	var out []*Thread
	for _, t := range r.threads {
		if t.done {
			continue
		}
		if t.blocked != nil && !t.blocked() {
			continue
		}
		out = append(out, t)
	}
	return out
}

// yield is a scheduling point: any runnable thread may run next.
func (r *Run) yield(why string) {
	if r.nthreads <= 1 {
		return
	}
	cands := r.runnable()
	if len(cands) == 0 {
		panic(abort{abDeadlock, "all threads blocked at " + why})
	}
	// order: current thread first so that alternative 0 = no switch
	idx := 0
	if len(cands) > 1 {
		curRunnable := false
		for i, t := range cands {
			if t == r.cur {
				cands[0], cands[i] = cands[i], cands[0]
				curRunnable = true
			}
		}
		// context bound: a switch away from a thread that could continue is a preemption
		if bound, ok := r.E.Cfg.Params["preemptions"]; ok && curRunnable && r.preempts >= int(bound) {
			idx = 0
		} else {
			idx = r.chooseSched(len(cands))
			if curRunnable && idx != 0 {
				r.preempts++
			}
		}
	}
	r.switchTo(cands[idx])
}

func (r *Run) chooseSched(n int) int {
	if r.E.Cfg.Concrete != nil {
		c := 0
		if r.schedN < len(r.E.Cfg.ConcreteSched) {
			c = r.E.Cfg.ConcreteSched[r.schedN]
		}
		r.schedN++
		if c >= n {
			c = 0
		}
		return c
	}
	i := len(r.taken)
	if i < len(r.prefix) {
		d := r.prefix[i]
		if d.Kind != dkSched || int(d.N) != n {
			panic(abort{abUnsupported, "non-deterministic re-execution at scheduling point"})
		}
		r.taken = append(r.taken, d)
		return int(d.Alt)
	}
	for j := 1; j < n; j++ {
		np := make([]Decision, len(r.taken)+1)
		copy(np, r.taken)
		np[len(r.taken)] = Decision{Kind: dkSched, N: int32(n), Alt: int32(j)}
		r.pushPrefix(np)
	}
	r.taken = append(r.taken, Decision{Kind: dkSched, N: int32(n), Alt: 0})
	return 0
}

// switchTo hands control to t and suspends the current thread until it is scheduled again.
func (r *Run) switchTo(t *Thread) {
	me := r.cur
	if t == me {
		me.blocked = nil
		return
	}
	r.cur = t
	t.blocked = nil
	if !t.started {
		t.started = true
		go r.threadBody(t)
	} else {
		t.wake <- struct{}{}
	}
	if me.done {
		return
	}
	if me.wake == nil {
		me.wake = make(chan struct{})
	}
	<-me.wake
	if r.killed {
		panic(threadKilled{})
	}
	// propagate an abort raised in another thread to the main thread
	if me.id == 0 && r.threadErr != nil {
		err := r.threadErr
		r.threadErr = nil
		panic(err)
	}
}

type threadKilled struct{}

func (r *Run) threadBody(t *Thread) {
	defer func() {
		rec := recover()
		if _, ok := rec.(threadKilled); ok {
			return
		}
		t.done = true
		if rec != nil {
			// hand the problem to the main thread
			r.threadErr = rec
			main := r.threads[0]
			r.cur = main
			main.blocked = nil
			main.wake <- struct{}{}
			return
		}
		r.tick()
		// thread finished: pick someone else
		cands := r.runnable()
		if len(cands) == 0 {
			r.threadErr = abort{abDeadlock, "all remaining threads blocked after thread exit"}
			main := r.threads[0]
			r.cur = main
			main.wake <- struct{}{}
			return
		}
		idx := 0
		func() {
			defer func() {
				if rr := recover(); rr != nil {
					r.threadErr = rr
					idx = -1
				}
			}()
			if len(cands) > 1 {
				idx = r.chooseSched(len(cands))
			}
		}()
		if idx < 0 {
			main := r.threads[0]
			r.cur = main
			main.wake <- struct{}{}
			return
		}
		nt := cands[idx]
		r.cur = nt
		nt.blocked = nil
		if !nt.started {
			nt.started = true
			go r.threadBody(nt)
		} else {
			nt.wake <- struct{}{}
		}
	}()
	r.callValue(t.fn, t.args, nil)
}

// block suspends the current thread until cond() holds.
func (r *Run) block(cond func() bool, why string) {
	if cond() {
		return
	}
	if r.nthreads <= 1 {
		panic(abort{abDeadlock, "single thread blocks forever at " + why})
	}
	r.cur.blocked = cond
	r.yield(why)
	// when we run again the scheduler has checked cond
}

// killThreads releases goroutines of suspended threads when a path ends abnormally.
func (r *Run) killThreads() {
	if len(r.threads) <= 1 {
		return
	}
	r.killed = true
	for _, t := range r.threads[1:] {
		if t.started && !t.done && t != r.cur {
			select {
			case t.wake <- struct{}{}:
			default:
			}
		}
	}
}

// joinAll blocks the calling (main) thread until all other threads are done.
func (r *Run) joinAll() {
	me := r.cur
	r.block(func() bool {
		for _, t := range r.threads {
			if t != me && !t.done {
				return false
			}
		}
		return true
	}, "vJoin")
	for _, t := range r.threads {
		if t != me {
			joinVC(&me.vc, t.vc)
		}
	}
}

// ---- race detection --------------------------------------------------------------

func (r *Run) recordAccess(a *Agg, idx int, write bool) {
	if r.accs == nil {
		r.accs = map[*Agg]*[]accessRec{}
	}
	lst := r.accs[a]
	if lst == nil {
		lst = &[]accessRec{}
		r.accs[a] = lst
	}
	t := r.cur
	for _, o := range *lst {
		if o.idx != idx || o.tid == t.id {
			continue
		}
		if !(o.write || write) {
			continue
		}
		if !vcLeq(o.vc, t.vc) {
			label := r.E.Cfg.Prop + "/data-race"
			if r.E.labelActive(label) {
				res, m := r.check(r.allVars())
				if res == smt.Sat {
					r.recordViolation(label, fmt.Sprintf("unsynchronised access to object %d slot %d by threads %d and %d", a.ID, idx, o.tid, t.id), m)
				}
			}
			panic(abort{abStop, "data race"})
		}
	}
	// keep the last access per (idx, thread, kind)
	for i := range *lst {
		o := &(*lst)[i]
		if o.idx == idx && o.tid == t.id && o.write == write {
			o.vc = append(o.vc[:0], t.vc...)
			return
		}
	}
	*lst = append(*lst, accessRec{idx: idx, write: write, tid: t.id, vc: append([]int(nil), t.vc...)})
}

// syncObj is the happens-before clock attached to a synchronisation object (mutex, atomic cell).
func (r *Run) syncClock(key interface{}) *[]int {
	if r.syncVC == nil {
		r.syncVC = map[interface{}]*[]int{}
	}
	c := r.syncVC[key]
	if c == nil {
		c = &[]int{}
		r.syncVC[key] = c
	}
	return c
}

// acquire/release implement release->acquire edges.
func (r *Run) hbAcquire(key interface{}) {
	if r.nthreads <= 1 {
		return
	}
	joinVC(&r.cur.vc, *r.syncClock(key))
}

func (r *Run) hbRelease(key interface{}) {
	if r.nthreads <= 1 {
		return
	}
	// publish the clock, then advance: accesses made after the release must not look ordered
	// before a later acquirer
	c := r.syncClock(key)
	joinVC(c, r.cur.vc)
	r.tick()
}

type slotKey struct {
	a *Agg
	i int
}
