package main

import (
	"encoding/json"
	"fmt"
	"os"
	"path/filepath"
	"sort"
	"strings"
	"symgo/smt"
	"time"

	"symgo/interp"
)

type ReplayFile struct {
	Property string            `json:"property"`
	Label    string            `json:"label"`
	Msg      string            `json:"msg"`
	Job      string            `json:"job"`
	Dir      string            `json:"dir"`
	Entry    string            `json:"entry"`
	Params   map[string]int64  `json:"params"`
	Values   map[string]uint64 `json:"values"`
	Choices  []int             `json:"choices"`
	Known    []string          `json:"known_ids"`
	Active   []string          `json:"active"`
	Clock    string            `json:"clock"`
	Sched    []int             `json:"scheduler_choices,omitempty"`
	NoNative bool              `json:"no_native,omitempty"`
	Confirm  string            `json:"confirmed_by,omitempty"`
	Output   string            `json:"native_output,omitempty"`
}

func writeEvidenceFailure(prop, tier string, seed int64, why string, d time.Duration) {
	ev := map[string]interface{}{
		"property_id": prop, "tier": tier, "seed": seed, "level": "model_checking", "wall_s": d.Seconds(), "violations": 0,
		"coverage":    map[string]interface{}{"evaluations": 0, "distinct_nontrivial": 0, "explanation": "check could not run: " + why},
		"assumptions": []string{},
	}
	b, _ := json.MarshalIndent(ev, "", " ")
	os.MkdirAll(evidenceDir(), 0o755)
	os.WriteFile(filepath.Join(evidenceDir(), prop+".json"), b, 0o644)
}

func sortedSet(m map[string]bool) []string {
	out := make([]string, 0, len(m))
	for k := range m {
		out = append(out, k)
	}
	sort.Strings(out)
	return out
}

func finishCheck(prop, tier string, seed int64, spec PropSpec, results []jobResult, eng *interp.Engine,
	ovPaths map[string]string, knownText map[string]string, workDir string, t0 time.Time) int {

	exit := 0
	var problems []string
	fallbackBy := map[string]int{}
	nViol := 0
	knownSeen := map[string]bool{}
	funcs := map[string]bool{}
	intr := map[string]bool{}
	totalPaths, totalDec, totalQ, totalSat, totalUnsat, totalUnk, totalSteps := 0, 0, 0, 0, 0, 0, 0
	var solverS float64
	maxLoop := 0
	labelsReached := map[string]int{}
	var samples []interface{}
	var jobInfo []interface{}
	validated := 0
	known := []string{}
	for id := range knownText {
		known = append(known, id)
	}
	sort.Strings(known)

	replayDir := filepath.Join(verifDir, "replays", prop)
	os.RemoveAll(replayDir)
	os.MkdirAll(replayDir, 0o755)
	replayN := 0

	var rp *nativeReplayer
	getReplayer := func(dir string) *nativeReplayer {
		if rp == nil || rp.dir != dir {
			rp = newNativeReplayer(dir, ovPaths, workDir)
		}
		return rp
	}

	for _, jr := range results {
		s := jr.Sum
		j := jr.Job
		totalPaths += s.Paths
		totalDec += s.Decisions
		totalQ += s.Queries
		totalSat += s.QSat
		totalUnsat += s.QUnsat
		totalUnk += s.QUnknown
		totalSteps += s.Steps
		solverS += s.SolverTime.Seconds()
		if s.MaxLoop > maxLoop {
			maxLoop = s.MaxLoop
		}
		for k := range s.Funcs {
			funcs[k] = true
		}
		for k := range s.Intrinsics {
			intr[k] = true
		}
		for k, n := range s.Reached {
			labelsReached[k] += n
		}
		for k := range s.Known {
			knownSeen[k] = true
		}
		if jr.Err != "" {
			problems = append(problems, fmt.Sprintf("job %s: %s", j.Name, jr.Err))
		}
		if s.Incomplete != "" {
			problems = append(problems, fmt.Sprintf("job %s: exploration incomplete: %s", j.Name, s.Incomplete))
		}
		for p, n := range s.Problems {
			problems = append(problems, fmt.Sprintf("job %s: %s (x%d)", j.Name, p, n))
		}
		for k, n := range s.Fallback {
			fallbackBy[k] += n
			fmt.Fprintf(os.Stderr, "[%s] job %s: %d queries left undecided by z3 4.8.12 were decided by %s\n", prop, j.Name, n, k)
		}
		if s.SolverCrashRetries > 0 {
			fmt.Fprintf(os.Stderr, "[%s] job %s: %d paths were re-run after the solver process died\n", prop, j.Name, s.SolverCrashRetries)
		}
		if s.UnknownFeas > 0 {
			// feasibility unknowns keep the branch (sound) but are reported
			fmt.Fprintf(os.Stderr, "[%s] job %s: %d feasibility queries were unknown (branches kept)\n", prop, j.Name, s.UnknownFeas)
		}
		for _, m := range s.Inconclusive {
			problems = append(problems, fmt.Sprintf("job %s: inconclusive: %s", j.Name, m))
		}
		// vacuity: expected labels must be reached
		for _, l := range j.Expect {
			if s.Reached[l] == 0 {
				problems = append(problems, fmt.Sprintf("job %s: vacuous: label %s never reached", j.Name, l))
			}
		}
		if s.Paths == 0 {
			problems = append(problems, fmt.Sprintf("job %s: vacuous: no feasible path", j.Name))
		}
		// violations: replay natively
		labels := make([]string, 0, len(s.Violations))
		for l := range s.Violations {
			labels = append(labels, l)
		}
		sort.Strings(labels)
		for _, l := range labels {
			confirmed := false
			var lastOut string
			for _, v := range s.Violations[l] {
				replayN++
				rf := ReplayFile{Property: prop, Label: l, Msg: v.Msg, Job: j.Name, Dir: j.Dir, Entry: j.Entry, Params: j.Params,
					Values: v.Model, Choices: v.Choices, Known: known, Active: activeLabels(j, prop), Clock: j.Clock,
					Sched: interp.SchedChoices(v.Path), NoNative: j.NoNative}
				path := filepath.Join(replayDir, fmt.Sprintf("%04d.json", replayN))
				writeJSON(path, rf)
				ok, out := false, "(native replay not applicable: the job depends on engine-side stubs)"
				if !j.NoNative {
					ok, out = getReplayer(j.Dir).confirm(path, rf)
				}
				lastOut = out
				if ok {
					rf.Confirm = "native"
					rf.Output = trimOut(out)
					writeJSON(path, rf)
					fmt.Printf("VIOLATION property=%s replay=%s\n", prop, path)
					fmt.Printf("  label=%s job=%s msg=%s\n", l, j.Name, v.Msg)
					nViol++
					confirmed = true
					break
				}
				rf.Output = trimOut(out)
				writeJSON(path, rf)
				engineOnly := j.Clock == "sym" || j.NoNative || strings.HasSuffix(l, "/alloc-proportional-to-input") || strings.HasSuffix(l, "/unbounded-work") || strings.HasSuffix(l, "/shared-table-written")
				if engineOnly && confirmConcrete(eng, jr.Cfg, v, l) {
					// clock readings cannot be forced on the native build: the model is re-run in the
					// engine's concrete mode (same SSA, every input and clock reading fixed)
					rf.Confirm = "engine-concrete (stubbed clock/syscall values cannot be forced on the native build)"
					writeJSON(path, rf)
					fmt.Printf("VIOLATION property=%s replay=%s\n", prop, path)
					fmt.Printf("  label=%s job=%s msg=%s (confirmed in engine concrete mode)\n", l, j.Name, v.Msg)
					nViol++
					confirmed = true
					break
				}
			}
			if !confirmed {
				problems = append(problems, fmt.Sprintf("job %s: SPURIOUS: %d model(s) for %s did not reproduce natively (engine or stub defect); last output: %s",
					j.Name, len(s.Violations[l]), l, trimOut(lastOut)))
			}
		}
		// validate sampled passing paths natively (observables and absence of assertion failures)
		if len(s.Samples) > 0 && !j.NoNative {
			n, bad := getReplayer(j.Dir).validateSamples(prop, j, s.Samples, known)
			validated += n
			for _, b := range bad {
				problems = append(problems, fmt.Sprintf("job %s: trace validation mismatch: %s", j.Name, b))
			}
			for i, sm := range s.Samples {
				if i < 2 {
					samples = append(samples, map[string]interface{}{"job": j.Name, "params": j.Params, "choices": sm.Choices, "inputs": sm.Model})
				}
			}
		}
		jobInfo = append(jobInfo, map[string]interface{}{
			"name": j.Name, "entry": j.Entry, "params": j.Params, "bounds": j.Bounds, "paths": s.Paths, "by_status": s.ByStatus,
			"decisions": s.Decisions, "queries": s.Queries, "solver_time_s": s.SolverTime.Seconds(), "wall_s": jr.Wall,
			"violations": s.ViolCount, "max_loop_visits": s.MaxLoop, "loop_cap": j.LoopCap, "infeasible_prefixes": s.ByStatus["infeasible"],
		})
	}
	if rp != nil {
		rp.close()
	}
	// cross-solver: a sample of the assertion queries, as standalone scripts, re-decided by z3 5.1.0 and cvc5
	crossN, crossAgree, crossUnknown := 0, 0, 0
	crossBy := map[string]int{}
	for _, jr := range results {
		for _, q := range jr.Sum.Cross {
			crossN++
			for _, sv := range [][]string{{"z3-new", "-in", "-T:70"}, {"cvc5", "--lang", "smt2", "--tlimit=70000"}} {
				got := smt.RunScript(sv[0], sv[1:], q.Script, 60*time.Second).String()
				switch {
				case got == "unknown":
					crossUnknown++
				case got == q.Result:
					crossAgree++
					crossBy[sv[0]]++
				default:
					problems = append(problems, fmt.Sprintf("job %s: cross-solver disagreement on an assertion query of %s: z3 4.8.12 %s, %s %s", jr.Job.Name, q.Label, q.Result, sv[0], got))
					os.MkdirAll(filepath.Join(evidenceDir(), "queries"), 0o755)
					os.WriteFile(filepath.Join(evidenceDir(), "queries", fmt.Sprintf("%s-disagree-%d.smt2", prop, crossN)), []byte(q.Script), 0o644)
				}
			}
		}
	}

	// known findings
	var kfReported []string
	for _, id := range known {
		if knownSeen[id] {
			fmt.Printf("KNOWN-FINDING: property=%s %s\n", prop, knownText[id])
			kfReported = append(kfReported, id)
		} else {
			fmt.Fprintf(os.Stderr, "[%s] note: known finding %s was not observed in this run (tier bounds may not reach it, or it has been fixed)\n", prop, id)
		}
	}
	if nViol > 0 {
		exit = 1
	} else if len(problems) > 0 {
		exit = 2
	}
	for _, p := range problems {
		fmt.Println("INCONCLUSIVE:", p)
	}

	// evidence
	if len(samples) == 0 {
		samples = append(samples, map[string]interface{}{"note": "no passing path was sampled"})
	}
	repoFuncs, libFuncs := []string{}, map[string]int{}
	for _, f := range sortedSet(funcs) {
		if strings.Contains(f, "go-libaudit") {
			if !strings.Contains(f, ".v") || true {
				repoFuncs = append(repoFuncs, strings.ReplaceAll(f, modPath, "libaudit"))
			}
		} else {
			pk := f
			if i := strings.LastIndex(f, "."); i > 0 {
				pk = strings.TrimLeft(f[:i], "(*")
			}
			libFuncs[pk]++
		}
	}
	cov := map[string]interface{}{
		"states":                        totalPaths,
		"transitions":                   totalDec,
		"traces_validated_against_impl": validated,
		"samples":                       samples,
		"exhaustive":                    false,
		"evaluations":                   totalPaths,
		"distinct_nontrivial":           totalPaths,
		"rule":                          "one evaluation = one feasible path of the harness through the real code (a distinct decision vector decided by the solver); every path is distinct by construction; assertions on it are discharged for all inputs that follow that path",
		"functions_encoded":             map[string]interface{}{"repo": repoFuncs, "library_by_package": libFuncs},
		"intrinsics_hit":                sortedSet(intr),
		"jobs":                          jobInfo,
		"queries":                       map[string]int{"total": totalQ, "sat": totalSat, "unsat": totalUnsat, "unknown": totalUnk},
		"solver_time_s":                 solverS,
		"instructions_interpreted":      totalSteps,
		"unwinding":                     map[string]interface{}{"max_loop_visits": maxLoop},
		"labels_reached":                labelsReached,
		"known_findings_reported":       kfReported,
		"problems":                      problems,
		"load_s":                        eng.LoadTime.Seconds(),
		"init_s":                        eng.InitTime.Seconds(),
		"init_log":                      eng.InitLog,
		"outside_the_claim":             spec.Outside,
		"solver":                        "z3 -in (one process per worker), QF_BV terms, push/pop per query",
		"cross_solver":                  map[string]interface{}{"assertion_queries_sampled": crossN, "verdicts_agreeing": crossAgree, "by_solver": crossBy, "unknown_or_timeout": crossUnknown, "solvers": []string{"z3-new 5.1.0", "cvc5 1.0"}, "queries_decided_by_fallback_solver": fallbackBy},
	}
	ev := map[string]interface{}{
		"property_id": prop, "tier": tier, "seed": seed, "level": "model_checking", "wall_s": time.Since(t0).Seconds(),
		"violations": nViol, "coverage": cov, "assumptions": spec.Assumptions,
	}
	os.MkdirAll(evidenceDir(), 0o755)
	writeJSON(filepath.Join(evidenceDir(), prop+".json"), ev)
	if exit == 0 {
		fmt.Printf("OK property=%s tier=%s paths=%d queries=%d wall=%.1fs\n", prop, tier, totalPaths, totalQ, time.Since(t0).Seconds())
	}
	return exit
}

func activeLabels(j Job, prop string) []string {
	if len(j.Labels) > 0 {
		return j.Labels
	}
	return []string{prop + "/"}
}

func writeJSON(path string, v interface{}) {
	b, _ := json.MarshalIndent(v, "", " ")
	os.WriteFile(path, append(b, '\n'), 0o644)
}

func trimOut(s string) string {
	s = strings.TrimSpace(s)
	if len(s) > 600 {
		s = s[:600] + "…"
	}
	return s
}

// confirmConcrete re-runs one counterexample with every nondeterministic input fixed to the
// model's value; the same assertion label must fail on that single concrete path.
func confirmConcrete(eng *interp.Engine, cfg interp.Config, v interp.Violation, label string) bool {
	saved := eng.Cfg
	savedSum := eng.Sum
	defer func() { eng.Cfg = saved; eng.Sum = savedSum }()
	c := cfg
	c.Concrete = v.Model
	c.ConcreteChoices = v.Choices
	c.ConcreteSched = interp.SchedChoices(v.Path)
	c.Workers = 1
	c.Samples = 0
	c.Deadline = time.Now().Add(60 * time.Second)
	eng.SetConfig(c)
	if err := eng.Explore(); err != nil {
		return false
	}
	return eng.Sum.ViolCount[label] > 0 && eng.Sum.Paths == 1
}
