package main

import (
	"encoding/json"
	"fmt"
	"os"
	"path/filepath"
	"strconv"
	"strings"
	"time"

	"symgo/interp"
)

// nativeReplayer builds the test binary of one repo package (with the harness overlay) once
// and runs replay files against it.
type nativeReplayer struct {
	dir     string
	bin     string
	workDir string
	err     string
}

func newNativeReplayer(dir string, ovPaths map[string]string, workDir string) *nativeReplayer {
	rp := &nativeReplayer{dir: dir, workDir: workDir}
	pn := pkgNameOf(dir)
	tag := strings.ReplaceAll(dir, "/", "_")
	if tag == "." {
		tag = "root"
	}
	testSrc := "package " + pn + "\n\nimport \"testing\"\n\nfunc TestVerifReplay(t *testing.T) { vRunReplay() }\n"
	if dir == "." {
		testSrc = "//go:build linux\n\n" + testSrc
	}
	testPath := filepath.Join(workDir, "replay_"+tag+"_test.go")
	os.WriteFile(testPath, []byte(testSrc), 0o644)
	repl := map[string]string{}
	for k, v := range ovPaths {
		repl[k] = v
	}
	repl[filepath.Join(repoDir, dir, "zz_verif_replay_test.go")] = testPath
	ovFile := filepath.Join(workDir, "overlay_"+tag+".json")
	writeJSON(ovFile, map[string]interface{}{"Replace": repl})
	rp.bin = filepath.Join(workDir, "replay_"+tag+".test")
	out, err := runCmd(filepath.Join(repoDir, dir), 10*time.Minute, goEnv(), "go", "test", "-c", "-vet=off", "-overlay", ovFile, "-o", rp.bin, ".")
	if err != nil {
		rp.err = "native build failed: " + err.Error() + "\n" + out
	}
	return rp
}

func (rp *nativeReplayer) close() {
	if rp.bin != "" {
		os.Remove(rp.bin)
	}
}

// run executes one replay file natively and returns the combined output.
func (rp *nativeReplayer) run(path string, timeout time.Duration) string {
	if rp.err != "" {
		return rp.err
	}
	env := append(goEnv(), "VERIF_REPLAY="+path)
	sh := fmt.Sprintf("ulimit -v 8388608; exec %s -test.run '^TestVerifReplay$' -test.count=1 -test.timeout=%ds", rp.bin, int(timeout.Seconds()))
	out, err := runCmd(filepath.Join(repoDir, rp.dir), timeout+10*time.Second, env, "sh", "-c", sh)
	if err != nil && !strings.Contains(out, "VERIF-") {
		out += "\n[runner] " + err.Error()
	}
	return out
}

// confirm decides whether the native run shows the violation.
func (rp *nativeReplayer) confirm(path string, rf ReplayFile) (bool, string) {
	out := rp.run(path, 120*time.Second)
	switch {
	case strings.Contains(out, "VERIF-ASSERT-FAILED "+rf.Label):
		return true, out
	case strings.HasSuffix(rf.Label, "/panic"):
		if strings.Contains(out, "VERIF-PANIC") || strings.Contains(out, "panic:") || strings.Contains(out, "fatal error:") {
			return true, out
		}
	case strings.HasSuffix(rf.Label, "/alloc-proportional-to-input"):
		if strings.Contains(out, "VERIF-ALLOC-EXCESS") || strings.Contains(out, "out of memory") || strings.Contains(out, "cannot allocate") {
			return true, out
		}
	case strings.HasSuffix(rf.Label, "/unbounded-work"):
		if strings.Contains(out, "timeout") || strings.Contains(out, "test timed out") {
			return true, out
		}
	case strings.HasSuffix(rf.Label, "/string-backing-array-overwritten"):
		// natively the sharing is real: the harness's own comparison (or a crash) shows the damage
		if strings.Contains(out, "VERIF-ASSERT-FAILED") || strings.Contains(out, "VERIF-PANIC") || strings.Contains(out, "panic:") {
			return true, out
		}
	case strings.HasSuffix(rf.Label, "/deadlock"):
		if strings.Contains(out, "all goroutines are asleep") || strings.Contains(out, "test timed out") || strings.Contains(out, "timeout") {
			return true, out
		}
	}
	return false, out
}

// validateSamples replays sampled passing paths natively: no assertion may fail and the
// observables must equal what the engine computed for that path.
func (rp *nativeReplayer) validateSamples(prop string, j Job, samples []interp.Sample, known []string) (int, []string) {
	var bad []string
	n := 0
	for i, s := range samples {
		rf := ReplayFile{Property: prop, Label: "(sample)", Job: j.Name, Dir: j.Dir, Entry: j.Entry, Params: j.Params,
			Values: s.Model, Choices: s.Choices, Known: known, Active: activeLabels(j, prop), Clock: j.Clock}
		path := filepath.Join(rp.workDir, fmt.Sprintf("sample_%s_%d.json", j.Name, i))
		writeJSON(path, rf)
		out := rp.run(path, 60*time.Second)
		if j.Clock == "sym" {
			// clock readings cannot be forced natively; only observables that do not depend on them are compared
		}
		if !strings.Contains(out, "VERIF-DONE") {
			if strings.Contains(out, "VERIF-KNOWN") {
				n++
				continue
			}
			if j.Clock == "sym" {
				continue
			}
			bad = append(bad, fmt.Sprintf("sample %d: native run did not finish cleanly: %s", i, trimOut(out)))
			continue
		}
		ok := true
		got := map[string]uint64{}
		for _, l := range strings.Split(out, "\n") {
			l = strings.TrimSpace(l)
			if strings.HasPrefix(l, "VERIF-OBS ") {
				kv := strings.SplitN(strings.TrimPrefix(l, "VERIF-OBS "), "=", 2)
				if len(kv) == 2 {
					v, _ := strconv.ParseUint(kv[1], 10, 64)
					got[kv[0]] = v
				}
			}
		}
		for k, v := range s.Obs {
			if gv, present := got[k]; !present || gv != v {
				ok = false
				bad = append(bad, fmt.Sprintf("sample %d: observable %s: engine %d, native %v (present=%v)", i, k, v, gv, present))
			}
		}
		if ok {
			n++
		}
		os.Remove(path)
	}
	return n, bad
}

func cmdReplay(args []string) int {
	if len(args) < 1 {
		fmt.Fprintln(os.Stderr, "usage: symgo replay <file>")
		return 2
	}
	b, err := os.ReadFile(args[0])
	if err != nil {
		fmt.Fprintln(os.Stderr, err)
		return 2
	}
	var rf ReplayFile
	if err := json.Unmarshal(b, &rf); err != nil {
		fmt.Fprintln(os.Stderr, err)
		return 2
	}
	workDir := filepath.Join(verifDir, ".work", fmt.Sprintf("replay-%s-%d", rf.Property, os.Getpid()))
	os.RemoveAll(workDir)
	os.MkdirAll(workDir, 0o755)
	defer os.RemoveAll(workDir)
	ov, err := buildOverlay(workDir, nil)
	if err != nil {
		fmt.Fprintln(os.Stderr, err)
		return 2
	}
	abs, _ := filepath.Abs(args[0])
	engineOnly := rf.NoNative || rf.Clock == "sym" || strings.HasSuffix(rf.Label, "/alloc-proportional-to-input") || strings.HasSuffix(rf.Label, "/unbounded-work") || strings.HasSuffix(rf.Label, "/shared-table-written")
	if !engineOnly {
		rp := newNativeReplayer(rf.Dir, ov, workDir)
		defer rp.close()
		ok, out := rp.confirm(abs, rf)
		fmt.Println(out)
		if ok {
			fmt.Printf("VIOLATION property=%s replay=%s\n", rf.Property, abs)
			return 1
		}
		fmt.Println("replay did not reproduce the violation natively")
		return 0
	}
	// engine concrete mode: same SSA of the current tree, every input / clock reading / scheduler choice fixed
	if rf.Dir == "aucoalesce" {
		img, err := genTableImage(workDir)
		if err != nil {
			fmt.Fprintln(os.Stderr, "table image:", err)
			return 2
		}
		ov[filepath.Join(repoDir, "aucoalesce", "zz_verif_tables_image.go")] = img
	}
	overlay := map[string][]byte{}
	for virt, real := range ov {
		c, err := os.ReadFile(real)
		if err != nil {
			fmt.Fprintln(os.Stderr, err)
			return 2
		}
		overlay[virt] = c
	}
	known := map[string]bool{}
	for _, k := range rf.Known {
		known[k] = true
	}
	pkg := modPath
	if rf.Dir != "." {
		pkg = modPath + "/" + rf.Dir
	}
	cfg := interp.Config{RepoDir: repoDir, Overlay: overlay, Patterns: []string{"./" + rf.Dir}, Prop: rf.Property, KnownIDs: known,
		Workers: 1, MaxSteps: 30_000_000, LoopCap: 20000, AllocCap: 1 << 16, SymIndexMax: 256, MaxConcretize: 4096,
		SolverPath: "z3", SolverArgs: []string{"-in"}, QueryTimeoutMs: 20000, Clock: "const", Pkg: pkg, Entry: rf.Entry,
		ActiveLabels: rf.Active, Params: rf.Params, Concrete: rf.Values, ConcreteChoices: rf.Choices, ConcreteSched: rf.Sched}
	if rf.Clock != "" {
		cfg.Clock = rf.Clock
	}
	if cfg.Params == nil {
		cfg.Params = map[string]int64{}
	}
	// job-specific caps (allocation / unwinding) come from checks.json
	if b, err := os.ReadFile(filepath.Join(verifDir, "checks.json")); err == nil {
		var specs map[string]PropSpec
		if json.Unmarshal(b, &specs) == nil {
			for _, j := range specs[rf.Property].Jobs {
				if j.Name == rf.Job {
					if j.AllocCap > 0 {
						cfg.AllocCap = j.AllocCap
					}
					if j.LoopCap > 0 {
						cfg.LoopCap = j.LoopCap
					}
					if j.MaxSteps > 0 {
						cfg.MaxSteps = j.MaxSteps
					}
				}
			}
		}
	}
	eng, err := interp.Load(cfg)
	if err != nil {
		fmt.Fprintln(os.Stderr, "cannot load /repo with the harness overlay:", err)
		return 2
	}
	eng.Init()
	if err := eng.Explore(); err != nil {
		fmt.Fprintln(os.Stderr, err)
		return 2
	}
	fmt.Printf("engine concrete mode: %d path(s), violations %v\n", eng.Sum.Paths, eng.Sum.ViolCount)
	if eng.Sum.ViolCount[rf.Label] > 0 {
		fmt.Printf("VIOLATION property=%s replay=%s\n", rf.Property, abs)
		return 1
	}
	fmt.Println("replay did not reproduce the violation in the engine's concrete mode")
	return 0
}
