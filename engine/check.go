package main

import (
	"encoding/json"
	"fmt"
	"os"
	"os/exec"
	"path/filepath"
	"runtime"
	"sort"
	"strconv"
	"strings"
	"time"

	"symgo/interp"
)

const modPath = "github.com/elastic/go-libaudit/v2"

// repoDir is the tree under test: /repo, or (development only, for trying seeded changes without
// touching /repo) the scratch worktree named by $VERIF_REPO.
var repoDir = func() string {
	if d := os.Getenv("VERIF_REPO"); d != "" {
		return d
	}
	return "/repo"
}()

// evidenceDir is where evidence/<id>.json is written: evidence/ for a full run against /repo; a scratch
// directory (.work/evidence-scratch) for development runs - a scratch tree ($VERIF_REPO) or a single job
// (-job) - so that such runs never overwrite the evidence of the registered checks.
var evidenceScratch = os.Getenv("VERIF_REPO") != ""

func evidenceDir() string {
	if evidenceScratch {
		return filepath.Join(verifDir, ".work", "evidence-scratch")
	}
	return filepath.Join(verifDir, "evidence")
}

// verifDir is the directory that holds checks.json, harness/, evidence/ ...: the parent of the
// directory of this executable (bin/symgo), so that a snapshot of /verif works on its own files.
var verifDir = func() string {
	if d := os.Getenv("VERIF_DIR"); d != "" {
		return d
	}
	if exe, err := os.Executable(); err == nil {
		if d := filepath.Dir(filepath.Dir(exe)); d != "" {
			if _, err := os.Stat(filepath.Join(d, "checks.json")); err == nil {
				return d
			}
		}
	}
	return "/verif"
}()

// Job is one harness entry explored with one set of bounds.
type Job struct {
	Name        string           `json:"name"`
	Dir         string           `json:"dir"` // package directory relative to /repo ("." for the root)
	Entry       string           `json:"entry"`
	Labels      []string         `json:"labels"`
	Params      map[string]int64 `json:"params"`
	Tiers       []string         `json:"tiers"`
	Clock       string           `json:"clock"`
	MaxPaths    int              `json:"max_paths"`
	TimeoutS    int              `json:"timeout_s"`
	Expect      []string         `json:"expect"` // labels that must be reached (vacuity guard)
	LoopCap     int              `json:"loop_cap"`
	MaxSteps    int              `json:"max_steps"`
	AllocCap    int              `json:"alloc_cap"`
	SymIndexMax int              `json:"sym_index_max"`
	ReverseMaps bool             `json:"reverse_maps"`
	Bounds      string           `json:"bounds"`
	QueryMs     int              `json:"query_ms"`
	NoNative    bool             `json:"no_native"` // counterexamples depend on engine-side stubs: confirm in engine concrete mode
}

type PropSpec struct {
	Jobs        []Job    `json:"jobs"`
	Assumptions []string `json:"assumptions"`
	Outside     []string `json:"outside"`
}

type knownFinding struct {
	Prop, ID, Text string
}

func readKnown() (known []knownFinding, fixed []string) {
	b, err := os.ReadFile(filepath.Join(verifDir, "known_findings.txt"))
	if err != nil {
		return nil, nil
	}
	for _, l := range strings.Split(string(b), "\n") {
		l = strings.TrimSpace(l)
		switch {
		case strings.HasPrefix(l, "known:"):
			f := strings.Fields(strings.TrimPrefix(l, "known:"))
			if len(f) < 2 {
				continue
			}
			kf := knownFinding{}
			rest := []string{}
			for _, w := range f {
				switch {
				case strings.HasPrefix(w, "property=") && kf.Prop == "":
					kf.Prop = strings.TrimPrefix(w, "property=")
				case strings.HasPrefix(w, "id=") && kf.ID == "":
					kf.ID = strings.TrimPrefix(w, "id=")
				default:
					rest = append(rest, w)
				}
			}
			kf.Text = strings.Join(rest, " ")
			known = append(known, kf)
		case strings.HasPrefix(l, "fixed:"):
			fixed = append(fixed, l)
		}
	}
	return
}

func pkgNameOf(dir string) string {
	// package clause of any non-test go file in /repo/<dir>
	ents, _ := os.ReadDir(filepath.Join(repoDir, dir))
	for _, e := range ents {
		n := e.Name()
		if strings.HasSuffix(n, ".go") && !strings.HasSuffix(n, "_test.go") {
			b, _ := os.ReadFile(filepath.Join(repoDir, dir, n))
			for _, l := range strings.Split(string(b), "\n") {
				l = strings.TrimSpace(l)
				if strings.HasPrefix(l, "package ") {
					return strings.Fields(l)[1]
				}
			}
		}
	}
	return ""
}

// harnessDirs maps /verif/harness/<name> to the repo package directory.
var harnessDirs = map[string]string{
	"root":       ".",
	"auparse":    "auparse",
	"rule":       "rule",
	"flags":      "rule/flags",
	"aucoalesce": "aucoalesce",
}

// buildOverlay returns virtual path -> real path for all harness files (and generated runtime files).
func buildOverlay(workDir string, onlyDirs map[string]bool) (map[string]string, error) {
	ov := map[string]string{}
	tmpl, err := os.ReadFile(filepath.Join(verifDir, "harness", "rt.go.tmpl"))
	if err != nil {
		return nil, err
	}
	for hname, rel := range harnessDirs {
		if onlyDirs != nil && !onlyDirs[rel] {
			continue
		}
		files, _ := filepath.Glob(filepath.Join(verifDir, "harness", hname, "zz_verif_*.go"))
		if len(files) == 0 {
			continue
		}
		for _, f := range files {
			ov[filepath.Join(repoDir, rel, filepath.Base(f))] = f
		}
		pn := pkgNameOf(rel)
		if pn == "" {
			return nil, fmt.Errorf("cannot determine package name of %s", rel)
		}
		rt := strings.Replace(string(tmpl), "PKGNAME", pn, 1)
		if rel == "." {
			rt = "//go:build linux\n\n" + rt
		}
		rtPath := filepath.Join(workDir, "rt_"+hname+".go")
		if err := os.WriteFile(rtPath, []byte(rt), 0o644); err != nil {
			return nil, err
		}
		ov[filepath.Join(repoDir, rel, "zz_verif_rt.go")] = rtPath
	}
	return ov, nil
}

func envInt(name string, def int64) int64 {
	if v := os.Getenv(name); v != "" {
		if n, err := strconv.ParseInt(v, 10, 64); err == nil {
			return n
		}
	}
	return def
}

type jobResult struct {
	Cfg  interp.Config
	Job  Job
	Sum  interp.Summary
	Err  string
	Wall float64
}

func inTier(j Job, tier string) bool {
	if len(j.Tiers) == 0 {
		return true
	}
	for _, t := range j.Tiers {
		if t == tier {
			return true
		}
	}
	return false
}

func cmdCheck(args []string) int {
	if len(args) < 1 {
		fmt.Fprintln(os.Stderr, "usage: symgo check <prop> [quick|thorough] [-job name] [-trace]")
		return 2
	}
	prop := args[0]
	tier := "quick"
	onlyJob := ""
	trace := false
	for i := 1; i < len(args); i++ {
		switch args[i] {
		case "quick", "thorough":
			tier = args[i]
		case "-job":
			i++
			onlyJob = args[i]
			evidenceScratch = true
		case "-trace":
			trace = true
		}
	}
	if t := os.Getenv("VERIF_TIER"); t == "quick" || t == "thorough" {
		tier = t
	}
	seed := envInt("VERIF_SEED", 1)
	t0 := time.Now()

	var specs map[string]PropSpec
	b, err := os.ReadFile(filepath.Join(verifDir, "checks.json"))
	if err != nil {
		fmt.Fprintln(os.Stderr, "cannot read checks.json:", err)
		return 2
	}
	if err := json.Unmarshal(b, &specs); err != nil {
		fmt.Fprintln(os.Stderr, "bad checks.json:", err)
		return 2
	}
	spec, ok := specs[prop]
	if !ok {
		fmt.Fprintln(os.Stderr, "no check registered for", prop)
		return 2
	}
	known, _ := readKnown()
	knownIDs := map[string]bool{}
	knownText := map[string]string{}
	for _, k := range known {
		if k.Prop == prop {
			knownIDs[k.ID] = true
			knownText[k.ID] = k.Text
		}
	}

	workDir := filepath.Join(verifDir, ".work", fmt.Sprintf("%s-%s-%d", prop, tier, os.Getpid()))
	os.RemoveAll(workDir)
	os.MkdirAll(workDir, 0o755)
	defer os.RemoveAll(workDir)

	// which package dirs do the jobs need?
	var jobs []Job
	dirs := map[string]bool{}
	for _, j := range spec.Jobs {
		if !inTier(j, tier) || (onlyJob != "" && j.Name != onlyJob) {
			continue
		}
		jobs = append(jobs, j)
		dirs[j.Dir] = true
	}
	if len(jobs) == 0 {
		fmt.Fprintln(os.Stderr, "no jobs for", prop, tier)
		return 2
	}
	ovPaths, err := buildOverlay(workDir, nil)
	if err != nil {
		fmt.Fprintln(os.Stderr, "overlay:", err)
		return 2
	}
	if dirs["aucoalesce"] {
		// table image of the YAML-driven normalisation tables, regenerated natively from the current tree
		img, err := genTableImage(workDir)
		if err != nil {
			fmt.Println("INCONCLUSIVE: cannot generate the aucoalesce table image:", err)
			writeEvidenceFailure(prop, tier, seed, "table image: "+err.Error(), time.Since(t0))
			return 2
		}
		ovPaths[filepath.Join(repoDir, "aucoalesce", "zz_verif_tables_image.go")] = img
	}
	overlay := map[string][]byte{}
	for virt, real := range ovPaths {
		c, err := os.ReadFile(real)
		if err != nil {
			fmt.Fprintln(os.Stderr, "overlay:", err)
			return 2
		}
		overlay[virt] = c
	}
	var patterns []string
	for d := range dirs {
		patterns = append(patterns, "./"+d)
	}
	sort.Strings(patterns)

	cfg := interp.Config{
		RepoDir: repoDir, Overlay: overlay, Patterns: patterns, Prop: prop, KnownIDs: knownIDs,
		Workers: runtime.NumCPU(), MaxSteps: 3_000_000, LoopCap: 20000, AllocCap: 1 << 16, SymIndexMax: 256,
		MaxConcretize: 4096, SolverPath: "z3", SolverArgs: []string{"-in"}, QueryTimeoutMs: 20000,
		Trace: trace, Samples: 8, Seed: seed, Clock: "const",
	}
	if ms := envInt("SYMGO_DUMP_SLOW", 0); ms > 0 {
		cfg.RecordQueries = true
		cfg.SlowQuery = time.Duration(ms) * time.Millisecond
		cfg.SlowDir = filepath.Join(verifDir, ".slow")
	}
	if sp := os.Getenv("SYMGO_SOLVER"); sp != "" {
		cfg.SolverPath = sp
	}
	if w := envInt("VERIF_WORKERS", 0); w > 0 {
		cfg.Workers = int(w)
	}
	cfg.CrossCheck = 6
	cfg.RecordQueries = true
	// a query z3 4.8.12 leaves undecided gets a second opinion (z3 5.1.0, then cvc5) before it counts as unknown
	cfg.FallbackMs = 60000
	cfg.FallbackBudget = 10 * time.Minute
	// (own hard time limits as well: a fallback solver must not outlive a check that is killed from outside)
	cfg.FallbackSolvers = [][]string{{"z3-new", "-in", "-T:70"}, {"cvc5", "--lang", "smt2", "--produce-models", "--tlimit=70000"}}
	if tier == "thorough" {
		cfg.FallbackMs = 240000
		cfg.FallbackSolvers = [][]string{{"z3-new", "-in", "-T:250"}, {"cvc5", "--lang", "smt2", "--produce-models", "--tlimit=250000"}}
		cfg.FallbackBudget = 60 * time.Minute
		cfg.QueryTimeoutMs = 120000
		cfg.Samples = 24
		cfg.CrossCheck = 40
	}
	if ms := envInt("SYMGO_QUERY_MS", 0); ms > 0 { // development: provoke the fallback path
		cfg.QueryTimeoutMs = int(ms)
	}
	eng, err := interp.Load(cfg)
	if err != nil {
		fmt.Println("INCONCLUSIVE: cannot load /repo with harness overlay:", err)
		writeEvidenceFailure(prop, tier, seed, "load failed: "+err.Error(), time.Since(t0))
		return 2
	}
	eng.Init()

	var results []jobResult
	for _, j := range jobs {
		jc := cfg
		jc.Pkg = modPath
		if j.Dir != "." {
			jc.Pkg = modPath + "/" + j.Dir
		}
		jc.Entry = j.Entry
		jc.ActiveLabels = j.Labels
		if len(jc.ActiveLabels) == 0 {
			jc.ActiveLabels = []string{prop + "/"}
		}
		jc.Params = j.Params
		if jc.Params == nil {
			jc.Params = map[string]int64{}
		}
		if j.Clock != "" {
			jc.Clock = j.Clock
		}
		if j.LoopCap > 0 {
			jc.LoopCap = j.LoopCap
		}
		if j.MaxSteps > 0 {
			jc.MaxSteps = j.MaxSteps
		}
		if j.AllocCap > 0 {
			jc.AllocCap = j.AllocCap
		}
		if j.SymIndexMax > 0 {
			jc.SymIndexMax = j.SymIndexMax
		}
		if j.QueryMs > 0 {
			jc.QueryTimeoutMs = j.QueryMs
		}
		jc.StopAfterViolation = 90 * time.Second
		if tier == "thorough" {
			jc.StopAfterViolation = 10 * time.Minute
		}
		jc.ReverseMaps = j.ReverseMaps
		jc.MaxPaths = j.MaxPaths
		if ts := envInt("SYMGO_TIMEOUT_S", 0); ts > 0 {
			j.TimeoutS = int(ts)
		}
		if j.TimeoutS == 0 {
			// default time budget per job: far above any job's normal time, so that a tree on which a job
			// explodes ends as "incomplete" (exit 2) instead of running for hours
			j.TimeoutS = 1500
			if tier == "thorough" {
				j.TimeoutS = 3 * 3600
			}
		}
		if j.TimeoutS > 0 {
			jc.Deadline = time.Now().Add(time.Duration(j.TimeoutS) * time.Second)
		}
		eng.SetConfig(jc)
		jt := time.Now()
		err := eng.Explore()
		if err == nil && (len(eng.Sum.Inconclusive) > 0 || eng.Sum.ByStatus["inconclusive"] > 0) && eng.Sum.Incomplete == "" && time.Since(jt) < 10*time.Minute {
			// solver trouble (time-outs under load, a solver that died): one more attempt with four times
			// the time per query and half the workers; only the second attempt counts
			fmt.Fprintf(os.Stderr, "[%s] job %s: %d inconclusive paths, running the job again with longer solver time-outs\n", prop, j.Name, eng.Sum.ByStatus["inconclusive"])
			jc.QueryTimeoutMs *= 4
			if jc.Workers > 4 {
				jc.Workers /= 2
			}
			if j.TimeoutS > 0 {
				jc.Deadline = time.Now().Add(time.Duration(j.TimeoutS) * time.Second)
			}
			eng.SetConfig(jc)
			jt = time.Now()
			err = eng.Explore()
		}
		jr := jobResult{Cfg: jc, Job: j, Sum: eng.Sum, Wall: time.Since(jt).Seconds()}
		if err != nil {
			jr.Err = err.Error()
		}
		results = append(results, jr)
		if os.Getenv("SYMGO_FORKS") != "" {
			type kv struct {
				k string
				n int
			}
			var l []kv
			for k, n := range jr.Sum.ForkSites {
				l = append(l, kv{k, n})
			}
			sort.Slice(l, func(i, j int) bool { return l[i].n > l[j].n })
			for i, x := range l {
				if i < 12 {
					fmt.Fprintf(os.Stderr, "    forks %6d  %s\n", x.n, x.k)
				}
			}
		}
		fmt.Fprintf(os.Stderr, "[%s] job %s: %d paths (%v) in %.1fs, %d queries, solver %.1fs, violations %v, problems %v %s\n",
			prop, j.Name, jr.Sum.Paths, jr.Sum.ByStatus, jr.Wall, jr.Sum.Queries, jr.Sum.SolverTime.Seconds(), jr.Sum.ViolCount, jr.Sum.Problems, jr.Sum.Incomplete)
	}
	return finishCheck(prop, tier, seed, spec, results, eng, ovPaths, knownText, workDir, t0)
}

// goEnv is the environment for native go commands (offline).
func goEnv() []string {
	return append(os.Environ(), "GOFLAGS=-mod=mod", "GOPROXY=off", "GOSUMDB=off", "GOTOOLCHAIN=local", "CGO_ENABLED=0")
}

func runCmd(dir string, timeout time.Duration, env []string, name string, args ...string) (string, error) {
	cmd := exec.Command(name, args...)
	cmd.Dir = dir
	cmd.Env = env
	done := make(chan struct{})
	var out []byte
	var err error
	go func() { out, err = cmd.CombinedOutput(); close(done) }()
	select {
	case <-done:
		return string(out), err
	case <-time.After(timeout):
		if cmd.Process != nil {
			cmd.Process.Kill()
		}
		<-done
		return string(out), fmt.Errorf("timeout after %v", timeout)
	}
}

// genTableImage runs the native helper that dumps aucoalesce's normalisation tables as Go source.
func genTableImage(workDir string) (string, error) {
	src, err := os.ReadFile(filepath.Join(verifDir, "harness", "tablegen", "zz_verif_tablegen_test.go.txt"))
	if err != nil {
		return "", err
	}
	genPath := filepath.Join(workDir, "tablegen_test.go")
	if err := os.WriteFile(genPath, src, 0o644); err != nil {
		return "", err
	}
	ovFile := filepath.Join(workDir, "overlay_tablegen.json")
	writeJSON(ovFile, map[string]interface{}{"Replace": map[string]string{filepath.Join(repoDir, "aucoalesce", "zz_verif_tablegen_test.go"): genPath}})
	img := filepath.Join(workDir, "tables_image.go")
	env := append(goEnv(), "VERIF_TABLE_IMAGE="+img)
	out, err := runCmd(filepath.Join(repoDir, "aucoalesce"), 5*time.Minute, env, "go", "test", "-vet=off", "-count=1", "-overlay", ovFile, "-run", "^TestVerifTableGen$", ".")
	if err != nil {
		return "", fmt.Errorf("%v: %s", err, trimOut(out))
	}
	if _, err := os.Stat(img); err != nil {
		return "", fmt.Errorf("helper did not write the image: %s", trimOut(out))
	}
	return img, nil
}
