// symgo: bounded symbolic execution of go/ssa with an SMT solver, for /verif checks.
package main

import (
	"fmt"
	"os"
)

func main() {
	if len(os.Args) < 2 {
		fmt.Fprintln(os.Stderr, "usage: symgo check <prop> <quick|thorough> | symgo replay <file> | symgo selftest")
		os.Exit(2)
	}
	switch os.Args[1] {
	case "check":
		os.Exit(cmdCheck(os.Args[2:]))
	case "replay":
		os.Exit(cmdReplay(os.Args[2:]))
	default:
		fmt.Fprintln(os.Stderr, "unknown command", os.Args[1])
		os.Exit(2)
	}
}
