// Package smt holds hash-consed QF_BV terms and the pipe to the solver.
package smt

import (
	"fmt"
	"math/bits"
	"strings"
	"sync"
)

type Op uint8

const (
	OpConst Op = iota
	OpVar
	OpNot // bool
	OpAnd // bool
	OpOr  // bool
	OpIte // bool cond, same-sort arms
	OpEq
	OpUlt
	OpUle
	OpSlt
	OpSle
	OpAdd
	OpSub
	OpMul
	OpUDiv
	OpURem
	OpSDiv
	OpSRem
	OpShl
	OpLShr
	OpAShr
	OpBAnd
	OpBOr
	OpBXor
	OpBNot
	OpNeg
	OpExtract // K = hi<<8|lo
	OpConcat
	OpZExt // to width W
	OpSExt
)

var opName = [...]string{"const", "var", "not", "and", "or", "ite", "=", "bvult", "bvule", "bvslt", "bvsle",
	"bvadd", "bvsub", "bvmul", "bvudiv", "bvurem", "bvsdiv", "bvsrem", "bvshl", "bvlshr", "bvashr",
	"bvand", "bvor", "bvxor", "bvnot", "bvneg", "extract", "concat", "zext", "sext"}

// Term is an immutable term. W==0 means Bool, otherwise a bit-vector of W bits (W<=64).
type Term struct {
	Op   Op
	W    uint8
	K    uint64
	A    [3]*Term
	Name string
	ID   uint32
}

func (t *Term) IsConst() bool { return t.Op == OpConst }
func (t *Term) IsTrue() bool  { return t.Op == OpConst && t.W == 0 && t.K == 1 }
func (t *Term) IsFalse() bool { return t.Op == OpConst && t.W == 0 && t.K == 0 }
func (t *Term) NArgs() int {
	switch {
	case t.A[0] == nil:
		return 0
	case t.A[1] == nil:
		return 1
	case t.A[2] == nil:
		return 2
	}
	return 3
}

func mask(w uint8) uint64 {
	if w >= 64 {
		return ^uint64(0)
	}
	return (uint64(1) << w) - 1
}

// sx sign-extends the w-bit value v to int64.
func sx(v uint64, w uint8) int64 {
	if w >= 64 {
		return int64(v)
	}
	s := 64 - uint(w)
	return int64(v<<s) >> s
}

// Signed returns the constant's value interpreted as signed.
func (t *Term) Signed() int64 { return sx(t.K, t.W) }

// ---- constants: global, interned -------------------------------------------------

var (
	constMu  sync.Mutex
	constTab = map[[2]uint64]*Term{}
	smallC   [65][]*Term
	True     *Term
	False    *Term
	constID  uint32 = 1
)

func init() {
	False = &Term{Op: OpConst, W: 0, K: 0, ID: 1}
	True = &Term{Op: OpConst, W: 0, K: 1, ID: 2}
	constID = 3
	for _, w := range []uint8{8, 16, 32, 64} {
		smallC[w] = make([]*Term, 512)
		for i := range smallC[w] {
			smallC[w][i] = &Term{Op: OpConst, W: w, K: uint64(i) & mask(w), ID: constID}
			constID++
		}
	}
}

// Const returns the interned constant of width w (w>0).
func Const(w uint8, v uint64) *Term {
	if w == 0 {
		if v != 0 {
			return True
		}
		return False
	}
	v &= mask(w)
	if v < 512 && smallC[w] != nil {
		if w != 8 || v < 256 {
			return smallC[w][v]
		}
	}
	k := [2]uint64{uint64(w), v}
	constMu.Lock()
	t := constTab[k]
	if t == nil {
		t = &Term{Op: OpConst, W: w, K: v, ID: constID}
		constID++
		constTab[k] = t
	}
	constMu.Unlock()
	return t
}

func Bool(b bool) *Term {
	if b {
		return True
	}
	return False
}

// ---- builder: per-run hash-consing table ----------------------------------------

type key struct {
	op      Op
	w       uint8
	k       uint64
	a, b, c *Term
	name    string
}

type Builder struct {
	tab  map[key]*Term
	next uint32
	Vars []*Term
	// Ranges holds unsigned interval facts [lo,hi] for variables, harvested by the interpreter from
	// asserted comparisons with constants. They only ever fold comparisons that are implied by the
	// path condition, so they never change a verdict.
	Ranges map[*Term][2]uint64
}

// rangeOf returns the known unsigned interval of x (a variable, possibly zero-extended).
func (b *Builder) rangeOf(x *Term) (lo, hi uint64, ok bool) {
	if b.Ranges == nil {
		return 0, 0, false
	}
	if x.Op == OpZExt {
		x = x.A[0]
	}
	if x.Op != OpVar {
		return 0, 0, false
	}
	r, ok := b.Ranges[x]
	return r[0], r[1], ok
}

// Narrow records lo <= v <= hi for variable v (intersected with what is known).
func (b *Builder) Narrow(v *Term, lo, hi uint64) {
	if v.Op == OpZExt {
		v = v.A[0]
	}
	if v.Op != OpVar || v.W == 0 {
		return
	}
	if b.Ranges == nil {
		b.Ranges = map[*Term][2]uint64{}
	}
	cur, ok := b.Ranges[v]
	if !ok {
		cur = [2]uint64{0, mask(v.W)}
	}
	if lo > cur[0] {
		cur[0] = lo
	}
	if hi < cur[1] {
		cur[1] = hi
	}
	b.Ranges[v] = cur
}

func NewBuilder() *Builder { return &Builder{tab: map[key]*Term{}, next: 1 << 24} }

func (b *Builder) NumTerms() int { return len(b.tab) }

func (b *Builder) mk(op Op, w uint8, k uint64, x, y, z *Term) *Term {
	ky := key{op: op, w: w, k: k, a: x, b: y, c: z}
	if t := b.tab[ky]; t != nil {
		return t
	}
	t := &Term{Op: op, W: w, K: k, A: [3]*Term{x, y, z}, ID: b.next}
	b.next++
	b.tab[ky] = t
	return t
}

// Var returns the variable with the given name (one per name and width).
func (b *Builder) Var(w uint8, name string) *Term {
	ky := key{op: OpVar, w: w, name: name}
	if t := b.tab[ky]; t != nil {
		return t
	}
	t := &Term{Op: OpVar, W: w, Name: name, ID: b.next}
	b.next++
	b.tab[ky] = t
	b.Vars = append(b.Vars, t)
	return t
}

func (b *Builder) Not(x *Term) *Term {
	if x.Op == OpConst {
		return Bool(x.K == 0)
	}
	if x.Op == OpNot {
		return x.A[0]
	}
	return b.mk(OpNot, 0, 0, x, nil, nil)
}

func (b *Builder) And(x, y *Term) *Term {
	if x.IsFalse() || y.IsFalse() {
		return False
	}
	if x.IsTrue() {
		return y
	}
	if y.IsTrue() {
		return x
	}
	if x == y {
		return x
	}
	if (x.Op == OpNot && x.A[0] == y) || (y.Op == OpNot && y.A[0] == x) {
		return False
	}
	if x.ID > y.ID {
		x, y = y, x
	}
	return b.mk(OpAnd, 0, 0, x, y, nil)
}

func (b *Builder) Or(x, y *Term) *Term {
	if x.IsTrue() || y.IsTrue() {
		return True
	}
	if x.IsFalse() {
		return y
	}
	if y.IsFalse() {
		return x
	}
	if x == y {
		return x
	}
	if (x.Op == OpNot && x.A[0] == y) || (y.Op == OpNot && y.A[0] == x) {
		return True
	}
	if x.ID > y.ID {
		x, y = y, x
	}
	return b.mk(OpOr, 0, 0, x, y, nil)
}

func (b *Builder) AndN(xs ...*Term) *Term {
	r := True
	for _, x := range xs {
		r = b.And(r, x)
	}
	return r
}

func (b *Builder) OrN(xs ...*Term) *Term {
	r := False
	for _, x := range xs {
		r = b.Or(r, x)
	}
	return r
}

func (b *Builder) Implies(x, y *Term) *Term { return b.Or(b.Not(x), y) }

func (b *Builder) Ite(c, x, y *Term) *Term {
	if c.IsTrue() {
		return x
	}
	if c.IsFalse() {
		return y
	}
	if x == y {
		return x
	}
	if x.W != y.W {
		panic(fmt.Sprintf("smt: ite width mismatch %d vs %d", x.W, y.W))
	}
	if x.W == 0 {
		// boolean ite -> connectives
		if x.IsTrue() {
			return b.Or(c, y)
		}
		if x.IsFalse() {
			return b.And(b.Not(c), y)
		}
		if y.IsTrue() {
			return b.Or(b.Not(c), x)
		}
		if y.IsFalse() {
			return b.And(c, x)
		}
	}
	if c.Op == OpNot {
		return b.mk(OpIte, x.W, 0, c.A[0], y, x)
	}
	// ite(c, a, ite(c, _, b)) = ite(c, a, b)
	if y.Op == OpIte && y.A[0] == c {
		y = y.A[2]
	}
	if x.Op == OpIte && x.A[0] == c {
		x = x.A[1]
	}
	if x == y {
		return x
	}
	return b.mk(OpIte, x.W, 0, c, x, y)
}

func (b *Builder) Eq(x, y *Term) *Term {
	if x == y {
		return True
	}
	if x.W != y.W {
		panic(fmt.Sprintf("smt: eq width mismatch %d vs %d (%s vs %s)", x.W, y.W, x, y))
	}
	if x.Op == OpConst && y.Op == OpConst {
		return Bool(x.K == y.K)
	}
	if x.W == 0 {
		if x.IsTrue() {
			return y
		}
		if y.IsTrue() {
			return x
		}
		if x.IsFalse() {
			return b.Not(y)
		}
		if y.IsFalse() {
			return b.Not(x)
		}
	}
	if x.Op == OpConst {
		x, y = y, x
	}
	if y.Op == OpConst {
		if lo, hi, ok := b.rangeOf(x); ok {
			if y.K < lo || y.K > hi {
				return False
			}
			if lo == hi {
				return True
			}
		}
		// eq(zext(a), c): c out of range => false; else eq(a, trunc c)
		if x.Op == OpZExt {
			in := x.A[0]
			if y.K > mask(in.W) {
				return False
			}
			return b.Eq(in, Const(in.W, y.K))
		}
		// eq(ite(c,k1,k2), k) with constant arms
		if x.Op == OpIte && x.A[1].Op == OpConst && x.A[2].Op == OpConst {
			t1, t2 := x.A[1].K == y.K, x.A[2].K == y.K
			switch {
			case t1 && t2:
				return True
			case t1:
				return x.A[0]
			case t2:
				return b.Not(x.A[0])
			default:
				return False
			}
		}
		// eq(concat(hi,lo), c)
		if x.Op == OpConcat {
			hi, lo := x.A[0], x.A[1]
			return b.And(b.Eq(hi, Const(hi.W, y.K>>lo.W)), b.Eq(lo, Const(lo.W, y.K)))
		}
	}
	if x.ID > y.ID {
		x, y = y, x
	}
	return b.mk(OpEq, 0, 0, x, y, nil)
}

func (b *Builder) Ne(x, y *Term) *Term { return b.Not(b.Eq(x, y)) }

func (b *Builder) Ult(x, y *Term) *Term {
	if x == y {
		return False
	}
	if x.Op == OpConst && y.Op == OpConst {
		return Bool(x.K < y.K)
	}
	if y.Op == OpConst && y.K == 0 {
		return False
	}
	if x.Op == OpConst && x.K == mask(x.W) {
		return False
	}
	if y.Op == OpConst {
		if lo, hi, ok := b.rangeOf(x); ok {
			if hi < y.K {
				return True
			}
			if lo >= y.K {
				return False
			}
		}
	}
	if x.Op == OpConst {
		if lo, hi, ok := b.rangeOf(y); ok {
			if x.K < lo {
				return True
			}
			if x.K >= hi {
				return False
			}
		}
	}
	if y.Op == OpConst && x.Op == OpZExt && y.K > mask(x.A[0].W) {
		return True
	}
	if x.Op == OpZExt && y.Op == OpConst {
		in := x.A[0]
		return b.Ult(in, Const(in.W, y.K))
	}
	if y.Op == OpZExt && x.Op == OpConst {
		in := y.A[0]
		if x.K >= mask(in.W) {
			return False
		}
		return b.Ult(Const(in.W, x.K), in)
	}
	if x.Op == OpZExt && y.Op == OpZExt && x.A[0].W == y.A[0].W {
		return b.Ult(x.A[0], y.A[0])
	}
	return b.mk(OpUlt, 0, 0, x, y, nil)
}
func (b *Builder) Ule(x, y *Term) *Term { return b.Not(b.Ult(y, x)) }
func (b *Builder) Ugt(x, y *Term) *Term { return b.Ult(y, x) }
func (b *Builder) Uge(x, y *Term) *Term { return b.Not(b.Ult(x, y)) }

func (b *Builder) Slt(x, y *Term) *Term {
	if x == y {
		return False
	}
	if x.Op == OpConst && y.Op == OpConst {
		return Bool(sx(x.K, x.W) < sx(y.K, y.W))
	}
	// both zero-extended from narrower: sign bit clear, so unsigned compare
	if x.Op == OpZExt && y.Op == OpZExt {
		return b.Ult(x, y)
	}
	if x.Op == OpZExt && y.Op == OpConst && sx(y.K, y.W) >= 0 {
		return b.Ult(x, y)
	}
	if y.Op == OpZExt && x.Op == OpConst && sx(x.K, x.W) >= 0 {
		return b.Ult(x, y)
	}
	if x.Op == OpZExt && y.Op == OpConst && sx(y.K, y.W) < 0 {
		return False
	}
	if y.Op == OpZExt && x.Op == OpConst && sx(x.K, x.W) < 0 {
		return True
	}
	return b.mk(OpSlt, 0, 0, x, y, nil)
}
func (b *Builder) Sle(x, y *Term) *Term { return b.Not(b.Slt(y, x)) }
func (b *Builder) Sgt(x, y *Term) *Term { return b.Slt(y, x) }
func (b *Builder) Sge(x, y *Term) *Term { return b.Not(b.Slt(x, y)) }

func chkW(x, y *Term, what string) {
	if x.W != y.W || x.W == 0 {
		panic(fmt.Sprintf("smt: %s width mismatch %d vs %d", what, x.W, y.W))
	}
}

func (b *Builder) Add(x, y *Term) *Term {
	chkW(x, y, "add")
	if x.Op == OpConst && y.Op == OpConst {
		return Const(x.W, x.K+y.K)
	}
	if x.Op == OpConst {
		x, y = y, x
	}
	if y.Op == OpConst {
		if y.K == 0 {
			return x
		}
		// (a + c1) + c2
		if x.Op == OpAdd && x.A[1].Op == OpConst {
			return b.Add(x.A[0], Const(x.W, x.A[1].K+y.K))
		}
		return b.mk(OpAdd, x.W, 0, x, y, nil)
	}
	if x.ID > y.ID {
		x, y = y, x
	}
	return b.mk(OpAdd, x.W, 0, x, y, nil)
}

func (b *Builder) Sub(x, y *Term) *Term {
	chkW(x, y, "sub")
	if x == y {
		return Const(x.W, 0)
	}
	if y.Op == OpConst {
		return b.Add(x, Const(x.W, -y.K))
	}
	return b.mk(OpSub, x.W, 0, x, y, nil)
}

func (b *Builder) Mul(x, y *Term) *Term {
	chkW(x, y, "mul")
	if x.Op == OpConst && y.Op == OpConst {
		return Const(x.W, x.K*y.K)
	}
	if x.Op == OpConst {
		x, y = y, x
	}
	if y.Op == OpConst {
		switch {
		case y.K == 0:
			return y
		case y.K == 1:
			return x
		case y.K&(y.K-1) == 0:
			return b.Shl(x, Const(x.W, uint64(bits.TrailingZeros64(y.K))))
		}
		return b.mk(OpMul, x.W, 0, x, y, nil)
	}
	if x.ID > y.ID {
		x, y = y, x
	}
	return b.mk(OpMul, x.W, 0, x, y, nil)
}

// UDiv etc. follow SMT-LIB semantics for a zero divisor; the interpreter checks
// the divisor before building these.
func (b *Builder) UDiv(x, y *Term) *Term {
	chkW(x, y, "udiv")
	if x.Op == OpConst && y.Op == OpConst && y.K != 0 {
		return Const(x.W, x.K/y.K)
	}
	if y.Op == OpConst && y.K == 1 {
		return x
	}
	if y.Op == OpConst && y.K != 0 && y.K&(y.K-1) == 0 {
		return b.LShr(x, Const(x.W, uint64(bits.TrailingZeros64(y.K))))
	}
	return b.mk(OpUDiv, x.W, 0, x, y, nil)
}
func (b *Builder) URem(x, y *Term) *Term {
	chkW(x, y, "urem")
	if x.Op == OpConst && y.Op == OpConst && y.K != 0 {
		return Const(x.W, x.K%y.K)
	}
	if y.Op == OpConst && y.K != 0 && y.K&(y.K-1) == 0 {
		return b.BAnd(x, Const(x.W, y.K-1))
	}
	return b.mk(OpURem, x.W, 0, x, y, nil)
}
func (b *Builder) SDiv(x, y *Term) *Term {
	chkW(x, y, "sdiv")
	if x.Op == OpConst && y.Op == OpConst && y.K != 0 {
		a, c := sx(x.K, x.W), sx(y.K, y.W)
		if c == -1 {
			return Const(x.W, uint64(-a))
		}
		return Const(x.W, uint64(a/c))
	}
	if y.Op == OpConst && y.K == 1 {
		return x
	}
	return b.mk(OpSDiv, x.W, 0, x, y, nil)
}
func (b *Builder) SRem(x, y *Term) *Term {
	chkW(x, y, "srem")
	if x.Op == OpConst && y.Op == OpConst && y.K != 0 {
		a, c := sx(x.K, x.W), sx(y.K, y.W)
		if c == -1 {
			return Const(x.W, 0)
		}
		return Const(x.W, uint64(a%c))
	}
	return b.mk(OpSRem, x.W, 0, x, y, nil)
}

// Shl: shift amount y has the same width as x; amounts >= W give 0 (SMT-LIB semantics, same as Go).
func (b *Builder) Shl(x, y *Term) *Term {
	chkW(x, y, "shl")
	if y.Op == OpConst {
		if y.K == 0 {
			return x
		}
		if y.K >= uint64(x.W) {
			return Const(x.W, 0)
		}
		if x.Op == OpConst {
			return Const(x.W, x.K<<y.K)
		}
		// x << k  ==  concat(extract(W-1-k,0,x), 0_k)
		return b.Concat(b.Extract(x, x.W-1-uint8(y.K), 0), Const(uint8(y.K), 0))
	}
	if x.Op == OpConst && x.K == 0 {
		return x
	}
	return b.mk(OpShl, x.W, 0, x, y, nil)
}
func (b *Builder) LShr(x, y *Term) *Term {
	chkW(x, y, "lshr")
	if y.Op == OpConst {
		if y.K == 0 {
			return x
		}
		if y.K >= uint64(x.W) {
			return Const(x.W, 0)
		}
		if x.Op == OpConst {
			return Const(x.W, x.K>>y.K)
		}
		return b.ZExt(b.Extract(x, x.W-1, uint8(y.K)), x.W)
	}
	if x.Op == OpConst && x.K == 0 {
		return x
	}
	return b.mk(OpLShr, x.W, 0, x, y, nil)
}
func (b *Builder) AShr(x, y *Term) *Term {
	chkW(x, y, "ashr")
	if y.Op == OpConst {
		if y.K == 0 {
			return x
		}
		k := y.K
		if k >= uint64(x.W) {
			k = uint64(x.W) - 1
		}
		if x.Op == OpConst {
			return Const(x.W, uint64(sx(x.K, x.W)>>k))
		}
		return b.SExt(b.Extract(x, x.W-1, uint8(k)), x.W)
	}
	return b.mk(OpAShr, x.W, 0, x, y, nil)
}

func (b *Builder) BAnd(x, y *Term) *Term {
	chkW(x, y, "bvand")
	if x == y {
		return x
	}
	if x.Op == OpConst && y.Op == OpConst {
		return Const(x.W, x.K&y.K)
	}
	if x.Op == OpConst {
		x, y = y, x
	}
	if y.Op == OpConst {
		if y.K == 0 {
			return y
		}
		if y.K == mask(x.W) {
			return x
		}
		// low mask: and(x, 2^k-1) = zext(extract(k-1,0,x))
		if y.K&(y.K+1) == 0 {
			k := uint8(bits.Len64(y.K))
			return b.ZExt(b.Extract(x, k-1, 0), x.W)
		}
		if x.Op == OpZExt {
			in := x.A[0]
			if y.K&mask(in.W) == mask(in.W) {
				return x
			}
			if y.K&mask(in.W) == 0 {
				return Const(x.W, 0)
			}
			return b.ZExt(b.BAnd(in, Const(in.W, y.K)), x.W)
		}
		return b.mk(OpBAnd, x.W, 0, x, y, nil)
	}
	if x.ID > y.ID {
		x, y = y, x
	}
	return b.mk(OpBAnd, x.W, 0, x, y, nil)
}
func (b *Builder) BOr(x, y *Term) *Term {
	chkW(x, y, "bvor")
	if x == y {
		return x
	}
	if x.Op == OpConst && y.Op == OpConst {
		return Const(x.W, x.K|y.K)
	}
	if x.Op == OpConst {
		x, y = y, x
	}
	if y.Op == OpConst {
		if y.K == 0 {
			return x
		}
		if y.K == mask(x.W) {
			return y
		}
		return b.mk(OpBOr, x.W, 0, x, y, nil)
	}
	// byte-assembly patterns such as zext(b0) | zext(b1)<<8 | ...: when the operands occupy
	// disjoint bit ranges the OR is a concatenation (which then fuses adjacent extracts)
	if t := b.orDisjoint(x, y); t != nil {
		return t
	}
	if x.ID > y.ID {
		x, y = y, x
	}
	return b.mk(OpBOr, x.W, 0, x, y, nil)
}
func (b *Builder) BXor(x, y *Term) *Term {
	chkW(x, y, "bvxor")
	if x == y {
		return Const(x.W, 0)
	}
	if x.Op == OpConst && y.Op == OpConst {
		return Const(x.W, x.K^y.K)
	}
	if x.Op == OpConst {
		x, y = y, x
	}
	if y.Op == OpConst {
		if y.K == 0 {
			return x
		}
		if y.K == mask(x.W) {
			return b.BNot(x)
		}
		return b.mk(OpBXor, x.W, 0, x, y, nil)
	}
	if x.ID > y.ID {
		x, y = y, x
	}
	return b.mk(OpBXor, x.W, 0, x, y, nil)
}
func (b *Builder) BNot(x *Term) *Term {
	if x.Op == OpConst {
		return Const(x.W, ^x.K)
	}
	if x.Op == OpBNot {
		return x.A[0]
	}
	return b.mk(OpBNot, x.W, 0, x, nil, nil)
}
func (b *Builder) Neg(x *Term) *Term {
	if x.Op == OpConst {
		return Const(x.W, -x.K)
	}
	if x.Op == OpNeg {
		return x.A[0]
	}
	return b.mk(OpNeg, x.W, 0, x, nil, nil)
}

func (b *Builder) Extract(x *Term, hi, lo uint8) *Term {
	if hi < lo || hi >= x.W {
		panic(fmt.Sprintf("smt: bad extract [%d:%d] of width %d", hi, lo, x.W))
	}
	w := hi - lo + 1
	if w == x.W {
		return x
	}
	switch x.Op {
	case OpConst:
		return Const(w, x.K>>lo)
	case OpExtract:
		ilo := uint8(x.K & 0xff)
		return b.Extract(x.A[0], ilo+hi, ilo+lo)
	case OpConcat:
		h, l := x.A[0], x.A[1]
		if hi < l.W {
			return b.Extract(l, hi, lo)
		}
		if lo >= l.W {
			return b.Extract(h, hi-l.W, lo-l.W)
		}
		return b.Concat(b.Extract(h, hi-l.W, 0), b.Extract(l, l.W-1, lo))
	case OpZExt:
		in := x.A[0]
		if hi < in.W {
			return b.Extract(in, hi, lo)
		}
		if lo >= in.W {
			return Const(w, 0)
		}
		return b.ZExt(b.Extract(in, in.W-1, lo), w)
	case OpSExt:
		in := x.A[0]
		if hi < in.W {
			return b.Extract(in, hi, lo)
		}
	case OpIte:
		if x.A[1].Op == OpConst || x.A[2].Op == OpConst {
			return b.Ite(x.A[0], b.Extract(x.A[1], hi, lo), b.Extract(x.A[2], hi, lo))
		}
	case OpBAnd, OpBOr, OpBXor:
		if lo == 0 || x.A[1].Op == OpConst {
			p, q := b.Extract(x.A[0], hi, lo), b.Extract(x.A[1], hi, lo)
			switch x.Op {
			case OpBAnd:
				return b.BAnd(p, q)
			case OpBOr:
				return b.BOr(p, q)
			default:
				return b.BXor(p, q)
			}
		}
	}
	return b.mk(OpExtract, w, uint64(hi)<<8|uint64(lo), x, nil, nil)
}

func (b *Builder) Concat(hi, lo *Term) *Term {
	w := uint(hi.W) + uint(lo.W)
	if w > 64 {
		panic("smt: concat wider than 64 bits")
	}
	if hi.Op == OpConst && lo.Op == OpConst {
		return Const(uint8(w), hi.K<<lo.W|lo.K)
	}
	if hi.Op == OpConst && hi.K == 0 {
		return b.ZExt(lo, uint8(w))
	}
	// concat(extract(x,h,m+1), extract(x,m,l)) = extract(x,h,l)
	if hi.Op == OpExtract && lo.Op == OpExtract && hi.A[0] == lo.A[0] {
		hlo := uint8(hi.K & 0xff)
		lhi := uint8(lo.K >> 8)
		if hlo == lhi+1 {
			return b.Extract(hi.A[0], uint8(hi.K>>8), uint8(lo.K&0xff))
		}
	}
	// concat(extract(x,h,m+1), x') where x' is the low part of x itself (zext/extract from 0)
	if hi.Op == OpExtract && hi.A[0] == lo && uint8(hi.K&0xff) == lo.W {
		// cannot express without widening lo; leave
	}
	// concat(zext-high-part..) patterns: concat(extract(x,W-1,k), extract(x,k-1,0)) handled above.
	// concat(hi, concat(m, lo)) keep right-nested; concat(extract(x..), concat(extract(x..), r)) fuse
	if lo.Op == OpConcat && hi.Op == OpExtract && lo.A[0].Op == OpExtract && hi.A[0] == lo.A[0].A[0] {
		hlo := uint8(hi.K & 0xff)
		mhi := uint8(lo.A[0].K >> 8)
		if hlo == mhi+1 {
			return b.Concat(b.Extract(hi.A[0], uint8(hi.K>>8), uint8(lo.A[0].K&0xff)), lo.A[1])
		}
	}
	return b.mk(OpConcat, uint8(w), 0, hi, lo, nil)
}

func (b *Builder) ZExt(x *Term, w uint8) *Term {
	if w == x.W {
		return x
	}
	if w < x.W {
		panic("smt: zext to narrower width")
	}
	if x.Op == OpConst {
		return Const(w, x.K)
	}
	if x.Op == OpZExt {
		return b.ZExt(x.A[0], w)
	}
	if x.Op == OpIte && x.A[1].Op == OpConst && x.A[2].Op == OpConst {
		return b.Ite(x.A[0], Const(w, x.A[1].K), Const(w, x.A[2].K))
	}
	return b.mk(OpZExt, w, 0, x, nil, nil)
}

func (b *Builder) SExt(x *Term, w uint8) *Term {
	if w == x.W {
		return x
	}
	if w < x.W {
		panic("smt: sext to narrower width")
	}
	if x.Op == OpConst {
		return Const(w, uint64(sx(x.K, x.W)))
	}
	if x.Op == OpZExt { // sign bit known zero
		return b.ZExt(x.A[0], w)
	}
	if x.Op == OpSExt {
		return b.SExt(x.A[0], w)
	}
	return b.mk(OpSExt, w, 0, x, nil, nil)
}

// Resize truncates or extends x to width w.
func (b *Builder) Resize(x *Term, w uint8, signed bool) *Term {
	switch {
	case w == x.W:
		return x
	case w < x.W:
		return b.Extract(x, w-1, 0)
	case signed:
		return b.SExt(x, w)
	default:
		return b.ZExt(x, w)
	}
}

// ---- printing -------------------------------------------------------------------

func sortOf(w uint8) string {
	if w == 0 {
		return "Bool"
	}
	return fmt.Sprintf("(_ BitVec %d)", w)
}

func constText(t *Term) string {
	if t.W == 0 {
		if t.K != 0 {
			return "true"
		}
		return "false"
	}
	if t.W%4 == 0 {
		return fmt.Sprintf("#x%0*x", int(t.W/4), t.K)
	}
	return fmt.Sprintf("#b%0*b", int(t.W), t.K)
}

// ref is how a term is referred to from another term's definition.
func ref(t *Term) string {
	switch t.Op {
	case OpConst:
		return constText(t)
	case OpVar:
		return t.Name
	}
	return fmt.Sprintf("t%d", t.ID)
}

// body is the defining expression of a non-leaf term in terms of refs.
func body(t *Term) string {
	switch t.Op {
	case OpExtract:
		return fmt.Sprintf("((_ extract %d %d) %s)", t.K>>8, t.K&0xff, ref(t.A[0]))
	case OpZExt:
		return fmt.Sprintf("((_ zero_extend %d) %s)", t.W-t.A[0].W, ref(t.A[0]))
	case OpSExt:
		return fmt.Sprintf("((_ sign_extend %d) %s)", t.W-t.A[0].W, ref(t.A[0]))
	}
	var sb strings.Builder
	sb.WriteByte('(')
	sb.WriteString(opName[t.Op])
	for i := 0; i < t.NArgs(); i++ {
		sb.WriteByte(' ')
		sb.WriteString(ref(t.A[i]))
	}
	sb.WriteByte(')')
	return sb.String()
}

// String renders the term as a (possibly large) tree; for diagnostics only.
func (t *Term) String() string {
	var sb strings.Builder
	var rec func(t *Term, d int)
	rec = func(t *Term, d int) {
		if t.Op == OpConst || t.Op == OpVar {
			sb.WriteString(ref(t))
			return
		}
		if d > 6 {
			sb.WriteString("…")
			return
		}
		switch t.Op {
		case OpExtract:
			fmt.Fprintf(&sb, "((_ extract %d %d) ", t.K>>8, t.K&0xff)
		case OpZExt:
			fmt.Fprintf(&sb, "((_ zero_extend %d) ", t.W-t.A[0].W)
		case OpSExt:
			fmt.Fprintf(&sb, "((_ sign_extend %d) ", t.W-t.A[0].W)
		default:
			sb.WriteString("(" + opName[t.Op] + " ")
		}
		for i := 0; i < t.NArgs(); i++ {
			if i > 0 {
				sb.WriteByte(' ')
			}
			rec(t.A[i], d+1)
		}
		sb.WriteByte(')')
	}
	rec(t, 0)
	return sb.String()
}

// Eval evaluates t under an assignment of variables (missing variables are 0).
func Eval(t *Term, env map[string]uint64) uint64 {
	memo := map[*Term]uint64{}
	var ev func(t *Term) uint64
	ev = func(t *Term) uint64 {
		switch t.Op {
		case OpConst:
			return t.K
		case OpVar:
			return env[t.Name] & func() uint64 {
				if t.W == 0 {
					return 1
				}
				return mask(t.W)
			}()
		}
		if v, ok := memo[t]; ok {
			return v
		}
		var a [3]uint64
		n := t.NArgs()
		if t.Op == OpIte {
			c := ev(t.A[0])
			var v uint64
			if c != 0 {
				v = ev(t.A[1])
			} else {
				v = ev(t.A[2])
			}
			memo[t] = v
			return v
		}
		for i := 0; i < n; i++ {
			a[i] = ev(t.A[i])
		}
		w := t.W
		aw := uint8(0)
		if n > 0 {
			aw = t.A[0].W
		}
		bl := func(b bool) uint64 {
			if b {
				return 1
			}
			return 0
		}
		var v uint64
		switch t.Op {
		case OpNot:
			v = 1 - a[0]
		case OpAnd:
			v = a[0] & a[1]
		case OpOr:
			v = a[0] | a[1]
		case OpEq:
			v = bl(a[0] == a[1])
		case OpUlt:
			v = bl(a[0] < a[1])
		case OpUle:
			v = bl(a[0] <= a[1])
		case OpSlt:
			v = bl(sx(a[0], aw) < sx(a[1], aw))
		case OpSle:
			v = bl(sx(a[0], aw) <= sx(a[1], aw))
		case OpAdd:
			v = a[0] + a[1]
		case OpSub:
			v = a[0] - a[1]
		case OpMul:
			v = a[0] * a[1]
		case OpUDiv:
			if a[1] == 0 {
				v = mask(w)
			} else {
				v = a[0] / a[1]
			}
		case OpURem:
			if a[1] == 0 {
				v = a[0]
			} else {
				v = a[0] % a[1]
			}
		case OpSDiv:
			x, y := sx(a[0], aw), sx(a[1], aw)
			switch {
			case y == 0:
				if x < 0 {
					v = 1
				} else {
					v = mask(w)
				}
			case y == -1:
				v = uint64(-x)
			default:
				v = uint64(x / y)
			}
		case OpSRem:
			x, y := sx(a[0], aw), sx(a[1], aw)
			switch {
			case y == 0:
				v = uint64(x)
			case y == -1:
				v = 0
			default:
				v = uint64(x % y)
			}
		case OpShl:
			if a[1] >= uint64(w) {
				v = 0
			} else {
				v = a[0] << a[1]
			}
		case OpLShr:
			if a[1] >= uint64(w) {
				v = 0
			} else {
				v = a[0] >> a[1]
			}
		case OpAShr:
			s := a[1]
			if s >= uint64(w) {
				s = uint64(w) - 1
			}
			v = uint64(sx(a[0], aw) >> s)
		case OpBAnd:
			v = a[0] & a[1]
		case OpBOr:
			v = a[0] | a[1]
		case OpBXor:
			v = a[0] ^ a[1]
		case OpBNot:
			v = ^a[0]
		case OpNeg:
			v = -a[0]
		case OpExtract:
			v = a[0] >> (t.K & 0xff)
		case OpConcat:
			v = a[0]<<t.A[1].W | a[1]
		case OpZExt:
			v = a[0]
		case OpSExt:
			v = uint64(sx(a[0], aw))
		default:
			panic("smt: eval of unknown op")
		}
		if w == 0 {
			v &= 1
		} else {
			v &= mask(w)
		}
		memo[t] = v
		return v
	}
	return ev(t)
}

// bitSlice is a run of bits [lo, lo+w) of a term: src == nil means zeros.
type bitSlice struct {
	src *Term
	w   uint8
}

// slicesOf decomposes t (most significant first) into zero runs and opaque pieces, looking through
// zero-extension, concatenation and constants. ok=false if t has no useful structure.
func slicesOf(t *Term, out []bitSlice) ([]bitSlice, bool) {
	switch t.Op {
	case OpZExt:
		out = append(out, bitSlice{nil, t.W - t.A[0].W})
		return slicesOf(t.A[0], out)
	case OpConcat:
		var ok1, ok2 bool
		out, ok1 = slicesOf(t.A[0], out)
		out, ok2 = slicesOf(t.A[1], out)
		return out, ok1 || ok2 || true
	case OpConst:
		if t.K == 0 {
			return append(out, bitSlice{nil, t.W}), true
		}
	}
	return append(out, bitSlice{t, t.W}), t.Op == OpZExt
}

// orDisjoint returns x|y as a concatenation when no bit position is (possibly) set in both.
func (b *Builder) orDisjoint(x, y *Term) *Term {
	if (x.Op != OpZExt && x.Op != OpConcat) || (y.Op != OpZExt && y.Op != OpConcat) {
		return nil
	}
	sx, _ := slicesOf(x, nil)
	sy, _ := slicesOf(y, nil)
	// walk both slice lists from the most significant bit, splitting at all boundaries
	var parts []*Term
	i, j := 0, 0
	var ox, oy uint8 // bits already consumed of sx[i], sy[j] (from the top)
	for i < len(sx) && j < len(sy) {
		rx, ry := sx[i].w-ox, sy[j].w-oy
		n := rx
		if ry < n {
			n = ry
		}
		px, py := sx[i], sy[j]
		if px.src != nil && py.src != nil {
			return nil // overlap
		}
		var piece *Term
		switch {
		case px.src != nil:
			hi := px.w - ox - 1
			piece = b.Extract(px.src, hi, hi-n+1)
		case py.src != nil:
			hi := py.w - oy - 1
			piece = b.Extract(py.src, hi, hi-n+1)
		default:
			piece = Const(n, 0)
		}
		parts = append(parts, piece)
		ox += n
		oy += n
		if ox == sx[i].w {
			i, ox = i+1, 0
		}
		if oy == sy[j].w {
			j, oy = j+1, 0
		}
	}
	if i != len(sx) || j != len(sy) || len(parts) == 0 {
		return nil
	}
	res := parts[len(parts)-1]
	for k := len(parts) - 2; k >= 0; k-- {
		res = b.Concat(parts[k], res)
	}
	return res
}
