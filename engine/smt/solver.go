package smt

import (
	"bufio"
	"fmt"
	"io"
	"os/exec"
	"strconv"
	"strings"
	"time"
)

type Result int

const (
	Unknown Result = iota
	Sat
	Unsat
)

func (r Result) String() string { return [...]string{"unknown", "sat", "unsat"}[r] }

// Solver is one long-lived solver process spoken to over SMT-LIB2.
type Solver struct {
	Path      string
	Args      []string
	TimeoutMs int

	cmd      *exec.Cmd
	in       *bufio.Writer
	out      *bufio.Reader
	defined  map[uint32]bool
	declared map[string]bool

	// Record, when non-nil, receives every base-level command since the last Reset
	// so that a query can be written out as a standalone script.
	Record *[]string

	Queries   int
	NSat      int
	NUnsat    int
	NUnknown  int
	Time      time.Duration
	LastError string
	// Dirty is set when the process had to be restarted mid-run: base assertions are lost and
	// the current run must be abandoned as inconclusive.
	Dirty bool
}

func NewSolver(path string, args []string, timeoutMs int) (*Solver, error) {
	s := &Solver{Path: path, Args: args, TimeoutMs: timeoutMs}
	if err := s.start(); err != nil {
		return nil, err
	}
	return s, nil
}

func (s *Solver) start() error {
	s.cmd = exec.Command(s.Path, s.Args...)
	w, err := s.cmd.StdinPipe()
	if err != nil {
		return err
	}
	r, err := s.cmd.StdoutPipe()
	if err != nil {
		return err
	}
	s.cmd.Stderr = nil
	if err := s.cmd.Start(); err != nil {
		return err
	}
	s.in = bufio.NewWriterSize(w, 1<<16)
	s.out = bufio.NewReaderSize(r, 1<<16)
	s.preamble()
	s.defined = map[uint32]bool{}
	s.declared = map[string]bool{}
	return nil
}

func (s *Solver) preamble() {
	fmt.Fprintf(s.in, "(set-option :print-success false)\n")
	if strings.Contains(s.Path, "z3") {
		if s.TimeoutMs > 0 {
			fmt.Fprintf(s.in, "(set-option :timeout %d)\n", s.TimeoutMs)
		}
	}
	fmt.Fprintf(s.in, "(set-option :produce-models true)\n")
	fmt.Fprintf(s.in, "(set-logic QF_BV)\n")
}

func (s *Solver) Close() {
	if s.cmd != nil {
		fmt.Fprintf(s.in, "(exit)\n")
		s.in.Flush()
		done := make(chan struct{})
		go func() { s.cmd.Wait(); close(done) }()
		select {
		case <-done:
		case <-time.After(2 * time.Second):
			s.cmd.Process.Kill()
		}
		s.cmd = nil
	}
}

func (s *Solver) restart() {
	if s.cmd != nil {
		s.cmd.Process.Kill()
		s.cmd.Wait()
	}
	s.start()
	s.Dirty = true
}

func (s *Solver) emit(line string) {
	s.in.WriteString(line)
	s.in.WriteByte('\n')
	if s.Record != nil {
		*s.Record = append(*s.Record, line)
	}
}

// Reset forgets all assertions and definitions.
func (s *Solver) Reset() {
	if s.cmd == nil {
		s.start()
	}
	s.Dirty = false
	s.in.WriteString("(reset)\n")
	s.preamble()
	s.defined = map[uint32]bool{}
	s.declared = map[string]bool{}
	if s.Record != nil {
		*s.Record = (*s.Record)[:0]
	}
}

// define emits declarations/definitions for t's sub-DAG (must be called at base level).
func (s *Solver) define(t *Term) {
	switch t.Op {
	case OpConst:
		return
	case OpVar:
		if !s.declared[t.Name] {
			s.declared[t.Name] = true
			s.emit(fmt.Sprintf("(declare-const %s %s)", t.Name, sortOf(t.W)))
		}
		return
	}
	if s.defined[t.ID] {
		return
	}
	// iterative post-order to keep the Go stack small on long chains
	type fr struct {
		t *Term
		i int
	}
	st := []fr{{t, 0}}
	for len(st) > 0 {
		f := &st[len(st)-1]
		n := f.t.NArgs()
		if f.i < n {
			a := f.t.A[f.i]
			f.i++
			switch a.Op {
			case OpConst:
			case OpVar:
				if !s.declared[a.Name] {
					s.declared[a.Name] = true
					s.emit(fmt.Sprintf("(declare-const %s %s)", a.Name, sortOf(a.W)))
				}
			default:
				if !s.defined[a.ID] {
					st = append(st, fr{a, 0})
				}
			}
			continue
		}
		if !s.defined[f.t.ID] {
			s.defined[f.t.ID] = true
			s.emit(fmt.Sprintf("(define-fun t%d () %s %s)", f.t.ID, sortOf(f.t.W), body(f.t)))
		}
		st = st[:len(st)-1]
	}
}

// Assert adds t permanently (until Reset).
func (s *Solver) Assert(t *Term) {
	if t.IsTrue() {
		return
	}
	s.define(t)
	s.emit(fmt.Sprintf("(assert %s)", ref(t)))
}

// Script returns a standalone SMT-LIB2 script for "base assertions + extras".
func (s *Solver) Script(extra ...*Term) string {
	if s.Record == nil {
		return ""
	}
	for _, e := range extra {
		s.define(e)
	}
	var sb strings.Builder
	for _, l := range *s.Record {
		sb.WriteString(l)
		sb.WriteByte('\n')
	}
	for _, e := range extra {
		fmt.Fprintf(&sb, "(assert %s)\n", ref(e))
	}
	sb.WriteString("(check-sat)\n")
	return sb.String()
}

func (s *Solver) readLine() (string, error) {
	for {
		l, err := s.out.ReadString('\n')
		if err != nil && l == "" {
			return "", err
		}
		l = strings.TrimSpace(l)
		if l != "" {
			return l, nil
		}
		if err != nil {
			return "", err
		}
	}
}

// Check decides satisfiability of the base assertions together with extras.
// If vars is non-nil and the result is Sat, the model values of vars are returned.
func (s *Solver) Check(vars []*Term, extra ...*Term) (Result, map[string]uint64) {
	start := time.Now()
	defer func() { s.Time += time.Since(start) }()
	s.Queries++
	for _, e := range extra {
		s.define(e)
	}
	for _, v := range vars {
		s.define(v)
	}
	s.in.WriteString("(push 1)\n")
	for _, e := range extra {
		fmt.Fprintf(s.in, "(assert %s)\n", ref(e))
	}
	s.in.WriteString("(check-sat)\n")
	s.in.Flush()
	res := Unknown
	// watchdog: the solver's own timeout is not always honoured
	var timer *time.Timer
	if s.TimeoutMs > 0 {
		proc := s.cmd.Process
		timer = time.AfterFunc(time.Duration(s.TimeoutMs)*time.Millisecond+3*time.Second, func() { proc.Kill() })
	}
	l, err := s.readLine()
	if timer != nil {
		timer.Stop()
	}
	if err != nil {
		s.LastError = "solver died: " + err.Error()
		s.NUnknown++
		s.restart()
		return Unknown, nil
	}
	switch {
	case l == "sat":
		res = Sat
	case l == "unsat":
		res = Unsat
	case l == "unknown" || l == "timeout":
		res = Unknown
	default:
		// "(error ...)" or anything unexpected: inconclusive; resynchronise by restart.
		s.LastError = l
		s.NUnknown++
		s.restart()
		return Unknown, nil
	}
	var model map[string]uint64
	if res == Sat && len(vars) > 0 {
		model = map[string]uint64{}
		// ask in chunks to keep lines short
		for i := 0; i < len(vars); i += 64 {
			j := i + 64
			if j > len(vars) {
				j = len(vars)
			}
			var sb strings.Builder
			sb.WriteString("(get-value (")
			for _, v := range vars[i:j] {
				sb.WriteString(v.Name)
				sb.WriteByte(' ')
			}
			sb.WriteString("))\n")
			s.in.WriteString(sb.String())
			s.in.Flush()
			txt, err := s.readSexp()
			if err != nil || strings.HasPrefix(txt, "(error") {
				s.LastError = "get-value: " + txt
				s.NUnknown++
				s.restart()
				return Unknown, nil
			}
			parseValues(txt, model)
		}
	}
	s.in.WriteString("(pop 1)\n")
	s.in.Flush()
	switch res {
	case Sat:
		s.NSat++
	case Unsat:
		s.NUnsat++
	default:
		s.NUnknown++
	}
	return res, model
}

// readSexp reads one balanced s-expression from the solver.
func (s *Solver) readSexp() (string, error) {
	var sb strings.Builder
	depth := 0
	started := false
	for {
		c, err := s.out.ReadByte()
		if err != nil {
			return sb.String(), err
		}
		if !started && (c == ' ' || c == '\n' || c == '\r' || c == '\t') {
			continue
		}
		sb.WriteByte(c)
		switch c {
		case '(':
			depth++
			started = true
		case ')':
			depth--
		}
		if started && depth == 0 {
			return sb.String(), nil
		}
		if !started && c != '(' {
			// a bare token line
			rest, err := s.out.ReadString('\n')
			sb.WriteString(rest)
			if err != nil && err != io.EOF {
				return sb.String(), err
			}
			return strings.TrimSpace(sb.String()), nil
		}
	}
}

// parseValues parses "((name value) (name value) ...)" into m.
func parseValues(txt string, m map[string]uint64) {
	toks := tokenize(txt)
	// expect: ( ( name val ) ( name val ) ... ) where val is #x.., #b.., true, false, or (_ bvN w)
	i := 0
	next := func() string {
		if i < len(toks) {
			t := toks[i]
			i++
			return t
		}
		return ""
	}
	if next() != "(" {
		return
	}
	for i < len(toks) {
		t := next()
		if t == ")" {
			return
		}
		if t != "(" {
			continue
		}
		name := next()
		v := next()
		var val uint64
		switch {
		case v == "true":
			val = 1
		case v == "false":
			val = 0
		case strings.HasPrefix(v, "#x"):
			val, _ = strconv.ParseUint(v[2:], 16, 64)
		case strings.HasPrefix(v, "#b"):
			val, _ = strconv.ParseUint(v[2:], 2, 64)
		case v == "(":
			// (_ bv123 32)
			next() // _
			bv := next()
			next() // width
			next() // )
			val, _ = strconv.ParseUint(strings.TrimPrefix(bv, "bv"), 10, 64)
		}
		m[name] = val
		// consume closing paren of the pair
		for i < len(toks) && toks[i] != ")" {
			i++
		}
		i++
	}
}

func tokenize(s string) []string {
	var toks []string
	i := 0
	for i < len(s) {
		c := s[i]
		switch {
		case c == '(' || c == ')':
			toks = append(toks, string(c))
			i++
		case c == ' ' || c == '\n' || c == '\t' || c == '\r':
			i++
		default:
			j := i
			for j < len(s) && !strings.ContainsRune("() \n\t\r", rune(s[j])) {
				j++
			}
			toks = append(toks, s[i:j])
			i = j
		}
	}
	return toks
}

// RunScript feeds a standalone script to a fresh process of the given solver and
// returns the first verdict line (used for cross-solver re-checking).
func RunScript(path string, args []string, script string, timeout time.Duration) Result {
	cmd := exec.Command(path, args...)
	cmd.Stdin = strings.NewReader(script)
	done := make(chan []byte, 1)
	go func() {
		out, _ := cmd.Output()
		done <- out
	}()
	select {
	case out := <-done:
		txt := string(out)
		if strings.Contains(txt, "(error") {
			return Unknown
		}
		for _, l := range strings.Split(txt, "\n") {
			switch strings.TrimSpace(l) {
			case "sat":
				return Sat
			case "unsat":
				return Unsat
			}
		}
		return Unknown
	case <-time.After(timeout):
		if cmd.Process != nil {
			cmd.Process.Kill()
		}
		return Unknown
	}
}

// RunScriptModel is RunScript plus a model for the named variables when the answer is sat.
func RunScriptModel(path string, args []string, script string, vars []*Term, timeout time.Duration) (Result, map[string]uint64) {
	if len(vars) > 0 {
		var sb strings.Builder
		sb.WriteString(script)
		sb.WriteString("(get-value (")
		for _, v := range vars {
			sb.WriteString(v.Name)
			sb.WriteByte(' ')
		}
		sb.WriteString("))\n")
		script = sb.String()
	}
	cmd := exec.Command(path, args...)
	cmd.Stdin = strings.NewReader(script)
	done := make(chan []byte, 1)
	go func() {
		out, _ := cmd.Output()
		done <- out
	}()
	select {
	case out := <-done:
		txt := string(out)
		lines := strings.SplitN(strings.TrimSpace(txt), "\n", 2)
		switch strings.TrimSpace(lines[0]) {
		case "unsat":
			return Unsat, nil
		case "sat":
			m := map[string]uint64{}
			if len(vars) > 0 {
				if len(lines) < 2 || strings.Contains(lines[1], "(error") {
					return Unknown, nil
				}
				parseValues(strings.TrimSpace(lines[1]), m)
				if len(m) < len(vars) {
					return Unknown, nil
				}
			}
			return Sat, m
		}
		return Unknown, nil
	case <-time.After(timeout):
		if cmd.Process != nil {
			cmd.Process.Kill()
		}
		return Unknown, nil
	}
}
