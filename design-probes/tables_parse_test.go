package designprobes

import (
	"fmt"
	"strings"
	"testing"

	"github.com/elastic/go-libaudit/v2/aucoalesce"
	"github.com/elastic/go-libaudit/v2/auparse"
)

func TestC20(t *testing.T) {
	bad := 0
	for i := 0; i < 65536; i++ {
		typ := auparse.AuditMessageType(i)
		back, err := auparse.GetAuditMessageType(typ.String())
		if err != nil || back != typ {
			bad++
			if bad < 10 {
				t.Logf("type %d -> %q -> %v %v", i, typ.String(), back, err)
			}
		}
		txt, _ := typ.MarshalText()
		var u auparse.AuditMessageType
		if err := u.UnmarshalText(txt); err != nil || u != typ {
			t.Logf("text roundtrip %d %q %v %v", i, txt, u, err)
		}
		if aucoalesce.GetAuditEventType(typ) != aucoalesce.GetAuditEventType(typ) {
			t.Log("nondet")
		}
	}
	t.Log("bad types", bad)
	for num, name := range auparse.AuditErrnoToName {
		if auparse.AuditErrnoToNum[name] != num {
			t.Logf("errno %d -> %s -> %d", num, name, auparse.AuditErrnoToNum[name])
		}
	}
	for name, num := range auparse.AuditErrnoToNum {
		n2, ok := auparse.AuditErrnoToName[num]
		if !ok || auparse.AuditErrnoToNum[n2] != num {
			t.Logf("errno name %s -> %d -> %q", name, num, n2)
		}
	}
	seen := map[string]auparse.AuditArch{}
	for a, n := range auparse.AuditArchNames {
		if o, ok := seen[n]; ok {
			t.Logf("arch dup name %s %x %x", n, a, o)
		}
		seen[n] = a
	}
	for arch, tab := range auparse.AuditSyscalls {
		names := map[string]int{}
		for n, name := range tab {
			if o, ok := names[name]; ok {
				t.Logf("syscall dup %s %s %d %d", arch, name, n, o)
			}
			names[name] = n
		}
	}
}

func TestParseEdge(t *testing.T) {
	for _, l := range []string{
		"type=SYSCALL msg=audit(1490137971.011:50406): foo=bar",
		"type=SYSCALL msg=audit(+1.0:1): a=b",
		"type=SYSCALL msg=audit(-1.-5:1): a=b",
		"type=SYSCALL msg=audit(1.0:4294967296): a=b",
		"type=SYSCALL msg=(1.0:1)",
		"xxxxxSYSCALL msg=audit(1.0:1): x=y",
		"type=UNKNOWN[1329] msg=audit(1.000:7): x=y",
		"type=unknown[70000] msg=audit(1.000:7): x=y",
		"type=FOO[12]BAR msg=audit(1.000:7): x=y",
		"type=SYSCALL msg=audit(1.000:7): msg=audit(2.000:8): record_type=zz sequence=9 raw_msg=q tags=a error=e",
		"type=SYSCALL  msg=audit(1.000:7): x=y",
		"type=SYSCALL msg=audit(1.000:7):   x=y   ",
		"type=PATH msg=audit(1.000:7): name=\"a b\" nametype=NORMAL",
		"type=PATH msg=audit(1.000:7): name=2F746D702F612062 nametype=NORMAL",
		"type=SYSCALL msg=audit(1.000:7): arch=c000003e syscall=2 success=yes exit=-2 comm=\"x\" exe=\"/a\\\"b\" key=(null) a0=? a1=?, x='' y=\"\"",
		"type=EXECVE msg=audit(1.000:7): argc=2 a0=\"ls\" a1=2D6C",
		"type=EXECVE msg=audit(1.000:7): argc=4294967295 a0=\"ls\"",
		"type=SOCKADDR msg=audit(1.000:7): saddr=0200",
		"type=SOCKADDR msg=audit(1.000:7): saddr=02000050A9FEA9FE0000000000000000",
		"type=SOCKADDR msg=audit(1.000:7): saddr=0A0000500000000120010DB8000000000000000000000001000000FF",
		"type=SOCKADDR msg=audit(1.000:7): saddr=01002F72756E2F7800",
		"type=PROCTITLE msg=audit(1.000:7): proctitle=6C73002D6C00",
		"type=USER_CMD msg=audit(1.000:7): pid=1 cmd=6C73202D6C terminal=pts/0 res=success",
		"type=AVC msg=audit(1.000:7): avc:  denied  { read write } for  pid=1 comm=\"x\" scontext=a:b:c:d tcontext=e:f:g:h tclass=file",
		"type=LOGIN msg=audit(1.000:7): pid=1 uid=0 old auid=4294967295 new auid=1000 old ses=4294967295 new ses=1 res=1",
	} {
		m, err := auparse.ParseLogLine(l)
		if err != nil {
			t.Logf("ERR %v  <= %s", err, l)
			continue
		}
		d, derr := m.Data()
		keys := []string{}
		for k, v := range d {
			keys = append(keys, k+"="+fmt.Sprintf("%q", v))
		}
		tags, _ := m.Tags()
		t.Logf("OK typ=%v ts=%v seq=%d raw=%q\n      data=%s tags=%q derr=%v", m.RecordType, m.Timestamp.UnixNano(), m.Sequence, m.RawData, strings.Join(keys, " "), tags, derr)
	}
}
