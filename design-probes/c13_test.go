package designprobes

import (
	"encoding/binary"
	"fmt"
	"math/rand"
	"testing"

	"github.com/elastic/go-libaudit/v2/rule"
)

var strCodes = map[uint32]bool{13: true, 14: true, 15: true, 16: true, 17: true, 19: true, 20: true, 21: true, 22: true, 23: true, 105: true, 107: true, 112: true, 210: true}

func TestC13Random(t *testing.T) {
	rng := rand.New(rand.NewSource(13))
	base, _ := rule.Build(&rule.SyscallRule{Type: rule.AppendSyscallRuleType, List: "exit", Action: "always", Syscalls: []string{"open"}, Filters: []rule.FilterSpec{{Type: rule.ValueFilterType, LHS: "path", Comparator: "=", RHS: "/etc/x"}, {Type: rule.ValueFilterType, LHS: "uid", Comparator: ">=", RHS: "10"}, {Type: rule.ValueFilterType, LHS: "exe", Comparator: "=", RHS: "/bin/y"}}, Keys: []string{"kk"}})
	le := binary.LittleEndian
	viol := map[string]int{}
	panics := map[string]int{}
	boundary := []uint32{0, 1, 2, 3, 4, 5, 6, 7, 63, 64, 65, 255, 256, 1039, 1040, 0x7fffffff, 0x80000000, 0xfffffff0, 0xfffffffa, 0xfffffffb, 0xffffffff, 105, 210, 112, 11, 111, 0x40000000, 0x48000000, 0x12345678}
	for it := 0; it < 300000; it++ {
		b := append([]byte(nil), base...)
		for n := 1 + rng.Intn(2); n > 0; n-- {
			word := rng.Intn(260)
			v := boundary[rng.Intn(len(boundary))]
			if rng.Intn(4) == 0 {
				v = rng.Uint32()
			}
			le.PutUint32(b[4*word:], v)
		}
		if rng.Intn(10) == 0 {
			b = b[:rng.Intn(len(b)+1)]
		}
		if len(b) >= 12 && le.Uint32(b[8:]) > 1<<16 {
			viol["skipped huge field_count (would allocate GBs)"]++
			continue
		}
		func() {
			defer func() {
				if r := recover(); r != nil {
					panics[fmt.Sprint(r)[:40]]++
				}
			}()
			_, err := rule.ToCommandLine(b, false)
			if err != nil {
				return
			}
			fc := le.Uint32(b[8:])
			buflen := le.Uint32(b[1036:])
			if fc > 64 {
				viol["accepted fc>64"]++
				return
			}
			if uint64(buflen) > uint64(len(b)-1040) {
				viol["accepted buflen>avail"]++
			}
			var sum uint64
			for i := uint32(0); i < fc; i++ {
				if strCodes[le.Uint32(b[268+4*i:])] {
					sum += uint64(le.Uint32(b[524+4*i:]))
				}
			}
			if sum > uint64(buflen) {
				viol["accepted strings>buflen"]++
			}
		}()
	}
	t.Log("violations:", viol, "panics:", panics)
}
