package designprobes

import (
	"errors"
	"fmt"
	"syscall"
	"testing"
	"time"
	"unsafe"

	libaudit "github.com/elastic/go-libaudit/v2"
	"github.com/elastic/go-libaudit/v2/aucoalesce"
	"github.com/elastic/go-libaudit/v2/auparse"
	"github.com/elastic/go-libaudit/v2/rule"
	"github.com/elastic/go-libaudit/v2/rule/flags"
)

func TestFailureConsts(t *testing.T) {
	t.Log(libaudit.SilentOnFailure, libaudit.LogOnFailure, libaudit.PanicOnFailure)
}

func try(t *testing.T, name string, f func()) {
	defer func() {
		if r := recover(); r != nil {
			t.Logf("%s: PANIC %v", name, r)
		}
	}()
	f()
}

func TestRulePanics(t *testing.T) {
	try(t, "build2048", func() {
		_, err := rule.Build(&rule.SyscallRule{Type: rule.AppendSyscallRuleType, List: "exit", Action: "always", Syscalls: []string{"2048"}})
		t.Log("build 2048:", err)
	})
	try(t, "build2047", func() {
		_, err := rule.Build(&rule.SyscallRule{Type: rule.AppendSyscallRuleType, List: "exit", Action: "always", Syscalls: []string{"2047"}})
		t.Log("build 2047:", err)
	})
	wf, err := rule.Build(&rule.SyscallRule{Type: rule.AppendSyscallRuleType, List: "exit", Action: "always", Syscalls: []string{"open"}, Filters: []rule.FilterSpec{{Type: rule.ValueFilterType, LHS: "path", Comparator: "=", RHS: "/etc/x"}, {Type: rule.ValueFilterType, LHS: "exe", Comparator: "=", RHS: "/bin/y"}}})
	if err != nil {
		t.Fatal(err)
	}
	try(t, "fieldcount65", func() {
		b := append([]byte(nil), wf...)
		*(*uint32)(unsafe.Pointer(&b[8])) = 65
		s, err := rule.ToCommandLine(b, false)
		t.Log("fc65:", s, err)
	})
	try(t, "valueoverflow", func() {
		b := append([]byte(nil), wf...)
		// Values start at 12 + 64*4 + 64*4
		off := 12 + 256 + 256
		*(*uint32)(unsafe.Pointer(&b[off+4])) = 0xFFFFFFFF - 5 // second string length => end wraps
		s, err := rule.ToCommandLine(b, false)
		t.Log("valoverflow:", s, err)
	})
	for _, r := range []string{
		"-a always,exit -S open -F uid=3000000000",
		"-a always,exit -F arch!=b64 -S open",
		"-a always,exit -S 500 -F uid=1",
		"-a always,exit -F uid=0 -F arch=b64 -S open",
		"-a always,exit -S open -F uid=4294967295",
		"-a always,exit -S open -k a -k b",
	} {
		rr, err := flags.Parse(r)
		if err != nil {
			t.Log(r, "parse err", err)
			continue
		}
		w1, err := rule.Build(rr)
		if err != nil {
			t.Log(r, "build err", err)
			continue
		}
		txt, err := rule.ToCommandLine(w1, false)
		if err != nil {
			t.Log(r, "=> tocmd err", err)
			continue
		}
		rr2, err := flags.Parse(txt)
		if err != nil {
			t.Log(r, "=>", txt, "reparse err", err)
			continue
		}
		w2, err := rule.Build(rr2)
		if err != nil {
			t.Log(r, "=>", txt, "rebuild err", err)
			continue
		}
		t.Logf("%q => %q same=%v", r, txt, string(w1) == string(w2))
	}
}

func TestFlags(t *testing.T) {
	for _, s := range []string{
		"-w /etc/passwd foo -p wa -k key",
		"-a always,exit -F 'path=/tmp/my file' -S open",
		"-a always,exit -F '.uid=0' -S open",
		"-a always,exit -C 'x.uid!=euid zz'",
		"-w /a -w /b -p r",
	} {
		r, err := flags.Parse(s)
		t.Logf("%q => %+v err=%v", s, r, err)
	}
}

type strm struct{ log []string }

func (s *strm) ReassemblyComplete(m []*auparse.AuditMessage) {
	s.log = append(s.log, fmt.Sprintf("ev seq=%d n=%d", m[0].Sequence, len(m)))
}
func (s *strm) EventsLost(c int) { s.log = append(s.log, fmt.Sprintf("lost %d", c)) }

func TestReasm(t *testing.T) {
	s := &strm{}
	r, _ := libaudit.NewReassembler(5, time.Hour, s)
	push := func(seq uint32) {
		r.PushMessage(&auparse.AuditMessage{RecordType: auparse.AUDIT_LOGIN, Sequence: seq}) // <1100? LOGIN=1006 <= LAST_DAEMON(1299) complete
	}
	push(10)
	push(11)
	push(5) // late
	push(12)
	t.Log(s.log)
	s2 := &strm{}
	r2, _ := libaudit.NewReassembler(5, time.Hour, s2)
	r2.PushMessage(&auparse.AuditMessage{RecordType: auparse.AUDIT_LOGIN, Sequence: 0xFFFFFFFF})
	r2.PushMessage(&auparse.AuditMessage{RecordType: auparse.AUDIT_LOGIN, Sequence: 0})
	r2.PushMessage(&auparse.AuditMessage{RecordType: auparse.AUDIT_LOGIN, Sequence: 4})
	t.Log(s2.log)
}

func TestCoalesce(t *testing.T) {
	lines := []string{
		`type=SYSCALL msg=audit(1492800799.050:20294): arch=c000003e syscall=83 success=yes exit=0 a0=7ff61dde1960 a1=1180 a2=0 a3=2 items=1 ppid=1 pid=326 auid=4294967295 uid=0 gid=0 euid=0 suid=0 fsuid=0 egid=0 sgid=0 fsgid=0 tty=(none) ses=4294967295 comm="mkdir" exe="/bin/mkdir" key="k"`,
		`type=PATH msg=audit(1492800799.050:20294): item=0 name="/run/x/" inode=11378 dev=00:13 mode=040755 ouid=0 ogid=0 rdev=00:00 nametype=CREATE`,
	}
	var msgs []*auparse.AuditMessage
	for _, l := range lines {
		m, err := auparse.ParseLogLine(l)
		if err != nil {
			t.Fatal(err)
		}
		msgs = append(msgs, m)
	}
	before, _ := msgs[0].Data()
	nb := len(before)
	ev, err := aucoalesce.CoalesceMessages(msgs)
	if err != nil {
		t.Fatal(err)
	}
	after, _ := msgs[0].Data()
	t.Logf("object type=%q mode=%q result=%q; data size before=%d after=%d", ev.Summary.Object.Type, ev.File.Mode, ev.Result, nb, len(after))
	ev2, _ := aucoalesce.CoalesceMessages(msgs)
	t.Logf("second coalesce result=%q session=%q (first %q %q)", ev2.Result, ev2.Session, ev.Result, ev.Session)
}

type fakeNL struct {
	seq     uint32
	replies [][]byte
	sent    int
}

func (f *fakeNL) Close() error { return nil }
func (f *fakeNL) Send(m syscall.NetlinkMessage) (uint32, error) {
	f.seq++
	f.sent++
	return f.seq, nil
}
func (f *fakeNL) Receive(nb bool, p libaudit.NetlinkParser) ([]syscall.NetlinkMessage, error) {
	if len(f.replies) == 0 {
		return nil, syscall.EAGAIN
	}
	b := f.replies[0]
	f.replies = f.replies[1:]
	return p(b)
}

func ack(seq uint32, errno int32) []byte {
	b := make([]byte, 16+4+16)
	h := (*syscall.NlMsghdr)(unsafe.Pointer(&b[0]))
	h.Len = uint32(len(b))
	h.Type = syscall.NLMSG_ERROR
	h.Seq = seq
	*(*int32)(unsafe.Pointer(&b[16])) = -errno
	return b
}

func TestClient(t *testing.T) {
	f := &fakeNL{}
	c := &libaudit.AuditClient{Netlink: f}
	f.replies = [][]byte{ack(1, int32(syscall.ENOENT))}
	err := c.DeleteRule([]byte("x"))
	t.Log("DeleteRule with ENOENT ack =>", err)
	f.replies = [][]byte{ack(2, int32(syscall.EPERM))}
	err = c.AddRule([]byte("x"))
	t.Log("AddRule with EPERM ack =>", err, errors.Is(err, syscall.EPERM))
	// pending acks
	_ = c.SetEnabled(true, libaudit.NoWait)
	f.replies = [][]byte{ack(3, 0)}
	t.Log("wait1", c.WaitForPendingACKs())
	t.Log("wait2", c.WaitForPendingACKs())
}
