package designprobes

import (
	"testing"

	"github.com/elastic/go-libaudit/v2/aucoalesce"
)

func TestExecveExtras(t *testing.T) {
	msgs := mk(t,
		`type=SYSCALL msg=audit(1.000:7): arch=c000003e syscall=59 success=yes exit=0 a0=0 a1=0 a2=0 a3=0 items=0 ppid=1 pid=2 auid=1 uid=0 gid=0 euid=0 suid=0 fsuid=0 egid=0 sgid=0 fsgid=0 tty=pts0 ses=1 comm="c" exe="/bin/c" key=(null)`,
		`type=EXECVE msg=audit(1.000:7): argc=1 a0="ls" a1_len=5 extra=zzz a1="dropped"`,
	)
	ev, err := aucoalesce.CoalesceMessages(msgs)
	t.Logf("err=%v args=%q data=%v warnings=%v", err, ev.Process.Args, ev.Data, ev.Warnings)
}
