package designprobes

import (
	"fmt"
	"math/rand"
	"strings"
	"testing"

	"github.com/elastic/go-libaudit/v2/rule"
	"github.com/elastic/go-libaudit/v2/rule/flags"
)

var ops = []string{"<=", ">=", "&=", "!=", "=", "<", ">", "&"}

// split token at the leftmost operator occurrence, longest match
func splitOp(tok string) (l, op, r string, ok bool) {
	for i := 0; i < len(tok); i++ {
		for _, o := range ops { // two-char ops listed first except "!=" vs "=": order handles longest
			if strings.HasPrefix(tok[i:], o) {
				return tok[:i], o, tok[i+len(o):], true
			}
		}
	}
	return "", "", "", false
}

func squote(s string) string { return "'" + s + "'" }

func TestC14Random(t *testing.T) {
	rng := rand.New(rand.NewSource(5))
	viol := map[string]int{}
	fail := func(l, f string, a ...interface{}) {
		viol[l]++
		if viol[l] <= 4 {
			t.Logf("VIOL %s: %s", l, fmt.Sprintf(f, a...))
		}
	}
	alpha := []byte("uidab01 =!<>&./-_,x")
	randTok := func(n int) string {
		b := make([]byte, 1+rng.Intn(n))
		for i := range b {
			b[i] = alpha[rng.Intn(len(alpha))]
		}
		return string(b)
	}
	for it := 0; it < 300000; it++ {
		type tk struct{ flag, arg string }
		var toks []tk
		nf := 1 + rng.Intn(4)
		for i := 0; i < nf; i++ {
			switch rng.Intn(9) {
			case 0:
				toks = append(toks, tk{"-a", []string{"always,exit", "exit,always", "never,task", "user,always", "exclude,never", "always", "exit,exit"}[rng.Intn(7)]})
			case 1:
				toks = append(toks, tk{"-A", []string{"always,exit", "task,never"}[rng.Intn(2)]})
			case 2:
				if rng.Intn(2) == 0 {
					toks = append(toks, tk{"-F", []string{"uid", "auid", "path", "a0"}[rng.Intn(4)] + ops[rng.Intn(8)] + randTok(4)})
				} else {
					toks = append(toks, tk{"-F", randTok(6)})
				}
			case 3:
				toks = append(toks, tk{"-C", []string{"uid!=euid", "auid=uid", randTok(6)}[rng.Intn(3)]})
			case 4:
				toks = append(toks, tk{"-S", []string{"open", "open,close", "open, close", "59", randTok(3)}[rng.Intn(5)]})
			case 5:
				toks = append(toks, tk{"-k", randTok(4)})
			case 6:
				toks = append(toks, tk{"-p", []string{"r", "wa", "rwxa", "q", randTok(2)}[rng.Intn(5)]})
			case 7:
				toks = append(toks, tk{"-w", "/" + randTok(4)})
			case 8:
				if rng.Intn(3) == 0 {
					toks = append(toks, tk{"-D", ""})
				} else {
					toks = append(toks, tk{"", randTok(3)}) // stray positional
				}
			}
		}
		// skip repeated single-valued flags (outside explored domain)
		cnt := map[string]int{}
		for _, k := range toks {
			cnt[k.flag]++
		}
		if cnt["-w"] > 1 || cnt["-a"] > 1 || cnt["-A"] > 1 || cnt["-D"] > 1 {
			continue
		}
		var parts []string
		stray := false
		for _, k := range toks {
			if k.flag == "" {
				if strings.HasPrefix(k.arg, "-") || strings.TrimSpace(k.arg) == "" {
					k.arg = "zz"
				}
				parts = append(parts, squote(k.arg))
				stray = true
			} else if k.flag == "-D" {
				parts = append(parts, "-D")
			} else {
				parts = append(parts, k.flag, squote(k.arg))
			}
		}
		line := strings.Join(parts, " ")
		r, err := flags.Parse(line)
		if err != nil {
			continue
		}
		if stray {
			fail("stray-accepted", "%q => %+v", line, r)
			continue
		}
		fam := map[string]bool{}
		for _, k := range toks {
			switch k.flag {
			case "-D":
				fam["D"] = true
			case "-w", "-p":
				fam["w"] = true
			case "-a", "-A", "-F", "-C", "-S":
				fam["s"] = true
			}
		}
		if len(fam) != 1 {
			fail("mix-accepted", "%q", line)
			continue
		}
		switch v := r.(type) {
		case *rule.SyscallRule:
			if (cnt["-a"] == 0) == (cnt["-A"] == 0) {
				fail("aA", "%q", line)
			}
			fi := 0
			var wantS, wantK []string
			for _, k := range toks {
				switch k.flag {
				case "-F", "-C":
					if fi >= len(v.Filters) {
						fail("filter-missing", "%q", line)
						continue
					}
					f := v.Filters[fi]
					fi++
					tok := strings.TrimSpace(k.arg)
					// compare ignoring ws between LHS and op
					l, op, rr, ok := splitOp(tok)
					if !ok || strings.TrimRight(l, " \t") != f.LHS || op != f.Comparator || rr != f.RHS {
						fail("filter-text", "%q: token %q => %+v (expected %q %q %q)", line, k.arg, f, l, op, rr)
					}
				case "-S":
					for _, w := range strings.Split(k.arg, ",") {
						wantS = append(wantS, strings.TrimSpace(w))
					}
				case "-k":
					for _, w := range strings.Split(k.arg, ",") {
						wantK = append(wantK, strings.TrimSpace(w))
					}
				case "-a", "-A":
					p := strings.Split(k.arg, ",")
					ok := false
					for _, x := range p {
						if strings.TrimSpace(x) == v.List {
							ok = true
						}
					}
					ok2 := false
					for _, x := range p {
						if strings.TrimSpace(x) == v.Action {
							ok2 = true
						}
					}
					if !ok || !ok2 {
						fail("list-action", "%q => %s,%s", line, v.List, v.Action)
					}
				}
			}
			if fi != len(v.Filters) {
				fail("filter-extra", "%q", line)
			}
			if fmt.Sprint(wantS) != fmt.Sprint([]string(v.Syscalls)) && !(len(wantS) == 0 && len(v.Syscalls) == 0) {
				fail("syscalls", "%q => %q want %q", line, v.Syscalls, wantS)
			}
			if fmt.Sprint(wantK) != fmt.Sprint([]string(v.Keys)) && !(len(wantK) == 0 && len(v.Keys) == 0) {
				fail("keys", "%q => %q want %q", line, v.Keys, wantK)
			}
		case *rule.FileWatchRule:
			for _, k := range toks {
				switch k.flag {
				case "-w":
					if v.Path != k.arg {
						fail("watch-path", "%q => %q", line, v.Path)
					}
				}
			}
			np := 0
			for _, k := range toks {
				if k.flag == "-p" {
					np += len(k.arg)
				}
			}
			if np != len(v.Permissions) {
				fail("perms", "%q => %v", line, v.Permissions)
			}
		}
	}
	t.Log("violations:", viol)
}
