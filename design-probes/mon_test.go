package designprobes

import (
	"fmt"
	"math/rand"
	"testing"
	"time"

	libaudit "github.com/elastic/go-libaudit/v2"
	"github.com/elastic/go-libaudit/v2/auparse"
)

type inst struct {
	seq         uint32
	msgs        []*auparse.AuditMessage
	firstPush   int
	complete    bool
	deliveredAt int // push index at delivery, -1 undelivered
}

type mon struct {
	t           *testing.T
	base        uint32
	max         int
	live        []*inst
	done        []*inst
	have        bool
	L           uint32
	exp, got    uint64
	npush       int
	inClose     bool
	viol        map[string]int
	liveAtStart int
}

func (m *mon) ord(s uint32) uint32 { return s - m.base }
func (m *mon) fail(label string, f string, a ...interface{}) {
	m.viol[label]++
	if m.viol[label] <= 2 {
		m.t.Logf("VIOL %s: %s", label, fmt.Sprintf(f, a...))
	}
}
func completing(t auparse.AuditMessageType) bool {
	return t == 1327 || t <= 1299 || t >= 2100
}
func (m *mon) push(msg *auparse.AuditMessage) {
	m.npush++
	var in *inst
	for _, l := range m.live {
		if l.seq == msg.Sequence {
			in = l
		}
	}
	if msg.RecordType == 1320 {
		if in != nil {
			in.complete = true
		}
		return
	}
	if in == nil {
		in = &inst{seq: msg.Sequence, firstPush: m.npush, deliveredAt: -1}
		m.live = append(m.live, in)
	}
	in.msgs = append(in.msgs, msg)
	if completing(msg.RecordType) {
		in.complete = true
	}
}
func (m *mon) ReassemblyComplete(g []*auparse.AuditMessage) {
	var in *inst
	for _, l := range m.live {
		if len(l.msgs) > 0 && l.msgs[0] == g[0] {
			in = l
		}
	}
	if in == nil {
		m.fail("C01/unknown", "delivery of unknown/duplicate group seq=%d", g[0].Sequence)
		return
	}
	if len(g) != len(in.msgs) {
		m.fail("C01/group", "group size %d vs %d", len(g), len(in.msgs))
	} else {
		for i := range g {
			if g[i] != in.msgs[i] {
				m.fail("C01/group", "order/pointer mismatch")
			}
		}
	}
	for _, e := range m.done {
		if m.ord(in.seq) < m.ord(e.seq) && !(in.firstPush > e.deliveredAt) {
			m.fail("C02/desc", "seq %d after %d without late arrival", in.seq, e.seq)
		}
	}
	for _, o := range m.live {
		if o != in && m.ord(o.seq) < m.ord(in.seq) {
			m.fail("C02/left", "seq %d left buffered while delivering %d", o.seq, in.seq)
		}
	}
	inOrder := m.have && m.ord(in.seq) > m.ord(m.L)
	if inOrder {
		m.exp += uint64(m.ord(in.seq) - m.ord(m.L) - 1)
	}
	if !m.have || inOrder {
		m.L = in.seq
	}
	m.have = true
	// cause
	if !m.inClose && !in.complete && !(len(m.live) > m.max) {
		m.fail("C10/cause", "seq %d delivered without cause live=%d max=%d", in.seq, len(m.live), m.max)
	}
	in.deliveredAt = m.npush
	for i, l := range m.live {
		if l == in {
			m.live = append(m.live[:i:i], m.live[i+1:]...)
			break
		}
	}
	m.done = append(m.done, in)
}
func (m *mon) EventsLost(n int) {
	if n <= 0 {
		m.fail("C03/nonpos", "EventsLost(%d)", n)
	}
	m.got += uint64(n)
}
func (m *mon) after(kind string) {
	if m.got != m.exp {
		m.fail("C03/sum", "after %s: reported %d expected %d", kind, m.got, m.exp)
	}
	m.got, m.exp = 0, 0
	if kind == "push" {
		if len(m.live) > m.max {
			m.fail("C10/bound", "live %d > max %d", len(m.live), m.max)
		}
		var old *inst
		for _, l := range m.live {
			if old == nil || m.ord(l.seq) < m.ord(old.seq) {
				old = l
			}
		}
		if old != nil && old.complete {
			m.fail("C10/head", "oldest live %d complete", old.seq)
		}
	}
}

func TestMonitorRandom(t *testing.T) {
	rng := rand.New(rand.NewSource(1))
	total := map[string]int{}
	types := []auparse.AuditMessageType{1300, 1302, 1307, 1320, 1327, 1100, 2100, 1320, 1300}
	for iter := 0; iter < 200000; iter++ {
		base := rng.Uint32()
		if iter%3 == 0 {
			base = uint32(0xFFFFFFFF - rng.Intn(6))
		}
		m := &mon{t: t, base: base, max: rng.Intn(4), viol: map[string]int{}}
		r, _ := libaudit.NewReassembler(m.max, time.Hour, m)
		k := 1 + rng.Intn(7)
		desc := fmt.Sprintf("base=%d max=%d:", base, m.max)
		for i := 0; i < k; i++ {
			switch rng.Intn(8) {
			case 0:
				r.Maintain()
				m.after("maintain")
				desc += " M"
			case 1:
				r.PushMessage(nil)
				m.after("push")
			default:
				msg := &auparse.AuditMessage{Sequence: base + uint32(rng.Intn(8)), RecordType: types[rng.Intn(len(types))]}
				desc += fmt.Sprintf(" P(%d,%d)", msg.Sequence-base, msg.RecordType)
				m.push(msg)
				r.PushMessage(msg)
				m.after("push")
			}
		}
		m.inClose = true
		if err := r.Close(); err != nil {
			t.Fatal(err)
		}
		m.after("close")
		if len(m.live) != 0 {
			m.fail("C01/undelivered", "%d live after close", len(m.live))
		}
		for l, n := range m.viol {
			if total[l] == 0 {
				t.Logf("first %s in history %s", l, desc)
			}
			total[l] += n
		}
	}
	t.Log("violation totals:", total)
}
