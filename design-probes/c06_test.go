package designprobes

import (
	"encoding/binary"
	"fmt"
	"math/rand"
	"strings"
	"testing"

	"github.com/elastic/go-libaudit/v2/rule"
)

var uapiField = map[string]uint32{"pid": 0, "uid": 1, "euid": 2, "suid": 3, "fsuid": 4, "gid": 5, "egid": 6, "sgid": 7, "fsgid": 8, "auid": 9, "pers": 10, "arch": 11, "msgtype": 12, "subj_user": 13, "subj_role": 14, "subj_type": 15, "subj_sen": 16, "subj_clr": 17, "ppid": 18, "obj_user": 19, "obj_role": 20, "obj_type": 21, "obj_lev_low": 22, "obj_lev_high": 23, "devmajor": 100, "devminor": 101, "inode": 102, "exit": 103, "success": 104, "path": 105, "perm": 106, "dir": 107, "filetype": 108, "obj_uid": 109, "obj_gid": 110, "exe": 112, "saddr_fam": 113, "a0": 200, "a1": 201, "a2": 202, "a3": 203, "key": 210}
var uapiOp = map[string]uint32{"&": 0x08000000, "<": 0x10000000, ">": 0x20000000, "!=": 0x30000000, "=": 0x40000000, "&=": 0x48000000, "<=": 0x50000000, ">=": 0x60000000}
var uapiList = map[string]uint32{"user": 0, "task": 1, "exit": 4, "exclude": 5}
var uapiAct = map[string]uint32{"never": 0, "always": 2}
var strFields = map[string]bool{"subj_user": true, "subj_role": true, "subj_type": true, "subj_sen": true, "subj_clr": true, "obj_user": true, "obj_role": true, "obj_type": true, "obj_lev_low": true, "obj_lev_high": true, "path": true, "dir": true, "exe": true, "key": true}

type want struct {
	field, op uint32
	val       uint32
	str       string
	isStr     bool
}

func TestC06Random(t *testing.T) {
	rng := rand.New(rand.NewSource(6))
	viol := map[string]int{}
	fail := func(l, f string, a ...interface{}) {
		viol[l]++
		if viol[l] <= 4 {
			t.Logf("VIOL %s: %s", l, fmt.Sprintf(f, a...))
		}
	}
	var fnames, onames []string
	for k := range uapiField {
		fnames = append(fnames, k)
	}
	for k := range uapiOp {
		onames = append(onames, k)
	}
	built := 0
	for it := 0; it < 200000; it++ {
		list := []string{"exit", "task", "user", "exclude"}[rng.Intn(4)]
		act := []string{"always", "never"}[rng.Intn(2)]
		r := &rule.SyscallRule{Type: rule.AppendSyscallRuleType, List: list, Action: act}
		var w []want
		nf := rng.Intn(4)
		for i := 0; i < nf; i++ {
			f := fnames[rng.Intn(len(fnames))]
			if f == "key" || f == "arch" {
				continue
			}
			op := onames[rng.Intn(len(onames))]
			x := want{field: uapiField[f], op: uapiOp[op]}
			var rhs string
			switch {
			case strFields[f]:
				rhs = fmt.Sprintf("/s%d", rng.Intn(1000))
				x.isStr, x.str, x.val = true, rhs, uint32(len(rhs))
			case f == "perm":
				bits := uint32(1 + rng.Intn(15))
				for i, c := range "xwra" {
					if bits&(1<<uint(i)) != 0 {
						rhs += string(c)
					}
				}
				x.val = bits
			case f == "filetype":
				names := []string{"file", "dir", "socket", "symlink", "char", "block", "fifo"}
				vals := []uint32{0100000, 040000, 0140000, 0120000, 020000, 060000, 010000}
				k := rng.Intn(7)
				rhs, x.val = names[k], vals[k]
			case f == "saddr_fam":
				x.val = []uint32{2, 10}[rng.Intn(2)]
				rhs = fmt.Sprint(x.val)
			case f == "exit":
				v := int32(rng.Uint32())
				x.val = uint32(v)
				rhs = fmt.Sprint(v)
			default:
				x.val = rng.Uint32()
				switch rng.Intn(3) {
				case 0:
					rhs = fmt.Sprint(x.val)
				case 1:
					rhs = fmt.Sprintf("0x%x", x.val)
				case 2:
					rhs = fmt.Sprintf("-%d", uint32(-int32(x.val)))
					if int32(x.val) >= 0 || strings.HasSuffix(f, "id") && f != "pid" && f != "ppid" {
						rhs = fmt.Sprint(x.val)
					}
				}
			}
			r.Filters = append(r.Filters, rule.FilterSpec{Type: rule.ValueFilterType, LHS: f, Comparator: op, RHS: rhs})
			w = append(w, x)
		}
		var mask [64]uint32
		ns := rng.Intn(3)
		all := ns == 0 || rng.Intn(5) == 0
		if all && ns > 0 {
			r.Syscalls = []string{"all"}
		} else {
			for i := 0; i < ns; i++ {
				n := rng.Intn(2048)
				r.Syscalls = append(r.Syscalls, fmt.Sprint(n))
				mask[n/32] |= 1 << (uint(n) % 32)
			}
		}
		nk := rng.Intn(3)
		for i := 0; i < nk; i++ {
			r.Keys = append(r.Keys, fmt.Sprintf("k%d", rng.Intn(100)))
		}
		if nk > 0 {
			j := strings.Join(r.Keys, "\x01")
			w = append(w, want{field: 210, op: uapiOp["="], val: uint32(len(j)), str: j, isStr: true})
		}
		b, err := rule.Build(r)
		if err != nil {
			continue
		}
		built++
		le := binary.LittleEndian
		if le.Uint32(b[0:]) != uapiList[list] || le.Uint32(b[4:]) != uapiAct[act] {
			fail("list-action", "%v", r)
		}
		if int(le.Uint32(b[8:])) != len(w) {
			fail("field-count", "%d vs %d", le.Uint32(b[8:]), len(w))
			continue
		}
		off := 0
		buflen := int(le.Uint32(b[1036:]))
		for i, x := range w {
			f, v, o := le.Uint32(b[268+4*i:]), le.Uint32(b[524+4*i:]), le.Uint32(b[780+4*i:])
			if f != x.field || o != x.op || v != x.val {
				fail("triple", "i=%d got (%d,%#x,%d) want (%d,%#x,%d) rule %+v", i, f, o, v, x.field, x.op, x.val, r.Filters)
			}
			if x.isStr {
				if off+len(x.str) > buflen || string(b[1040+off:1040+off+len(x.str)]) != x.str {
					fail("string", "i=%d", i)
				}
				off += len(x.str)
			}
		}
		for i := len(w); i < 64; i++ {
			if le.Uint32(b[268+4*i:]) != 0 || le.Uint32(b[524+4*i:]) != 0 || le.Uint32(b[780+4*i:]) != 0 {
				fail("unused-nonzero", "")
			}
		}
		if off != buflen {
			fail("buflen", "%d vs %d", off, buflen)
		}
		if len(b) != (1040+buflen+3)/4*4 {
			fail("padding", "%d", len(b))
		}
		for i := 0; i < 64; i++ {
			m := le.Uint32(b[12+4*i:])
			if all {
				if i < 63 && m != 0xFFFFFFFF || i == 63 && m&0xFFFF != 0xFFFF {
					fail("mask-all", "word %d = %#x", i, m)
				}
			} else if m != mask[i] {
				fail("mask", "word %d = %#x want %#x", i, m, mask[i])
			}
		}
	}
	t.Log("built", built, "violations:", viol)
}
