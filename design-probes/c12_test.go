package designprobes

import (
	"fmt"
	"math/rand"
	"net"
	"strings"
	"testing"

	"github.com/elastic/go-libaudit/v2/auparse"
)

// kernel's audit_log_untrustedstring
func kenc(v []byte) string {
	safe := true
	for _, c := range v {
		if c == '"' || c < 0x21 || c > 0x7e {
			safe = false
		}
	}
	if safe {
		return `"` + string(v) + `"`
	}
	return strings.ToUpper(fmt.Sprintf("%x", v))
}

func excluded(v []byte) bool { // property's exclusions
	if len(v) == 0 {
		return true
	}
	f, l := v[0], v[len(v)-1]
	return f == '"' || f == '\'' || l == '"' || l == '\'' || l == '\\'
}

func randVal(rng *rand.Rand, n int, nul bool) []byte {
	v := make([]byte, 1+rng.Intn(n))
	for i := range v {
		switch rng.Intn(6) {
		case 0:
			v[i] = byte(1 + rng.Intn(255))
		case 1:
			v[i] = " \"'=\\\t\n"[rng.Intn(7)]
		default:
			v[i] = byte(0x21 + rng.Intn(0x5e))
		}
		if nul && rng.Intn(5) == 0 {
			v[i] = 0
		}
	}
	return v
}

func TestC12Random(t *testing.T) {
	rng := rand.New(rand.NewSource(2))
	viol := map[string]int{}
	fail := func(l, f string, a ...interface{}) {
		viol[l]++
		if viol[l] <= 3 {
			t.Logf("VIOL %s: %s", l, fmt.Sprintf(f, a...))
		}
	}
	data := func(typ auparse.AuditMessageType, body string) map[string]string {
		m, err := auparse.Parse(typ, "audit(1.000:1): "+body)
		if err != nil {
			fail("parse", "%v %q", err, body)
			return nil
		}
		d, err := m.Data()
		if err != nil {
			fail("data", "%v %q", err, body)
			return nil
		}
		return d
	}
	sys := "arch=c000003e syscall=2 success=yes exit=0 a0=1 a1=2 a2=3 a3=4 items=1 ppid=1 pid=2 auid=1000 uid=0 gid=0 tty=pts0 ses=3 comm=\"x\" "
	for i := 0; i < 100000; i++ {
		v := randVal(rng, 6, false)
		if excluded(v) {
			continue
		}
		e := kenc(v)
		if d := data(auparse.AUDIT_SYSCALL, sys+"exe="+e+" key=(null)"); d != nil && d["exe"] != string(v) {
			fail("exe", "%q -> %q (enc %s)", v, d["exe"], e)
		}
		if d := data(auparse.AUDIT_CWD, "cwd="+e); d != nil && d["cwd"] != string(v) {
			fail("cwd", "%q -> %q", v, d["cwd"])
		}
		if d := data(auparse.AUDIT_PATH, "item=0 name="+e+" inode=1 nametype=NORMAL"); d != nil && d["name"] != string(v) {
			fail("name", "%q -> %q", v, d["name"])
		}
		if d := data(auparse.AUDIT_USER_CMD, "pid=1 cmd="+e+" terminal=pts/0 res=success"); d != nil && d["cmd"] != string(v) {
			fail("cmd", "%q -> %q", v, d["cmd"])
		}
		if d := data(auparse.AUDIT_TTY, "tty pid=1 uid=0 data="+e); d != nil && d["data"] != string(v) {
			fail("ttydata", "%q -> %q", v, d["data"])
		}
		if d := data(auparse.AUDIT_EXECVE, "argc=2 a0=\"ls\" a1="+e); d != nil && (d["a1"] != string(v) || d["a0"] != "ls") {
			fail("execve", "%q -> %q", v, d["a1"])
		}
		// proctitle: NULs as spaces, always hex when it has NULs
		pv := randVal(rng, 6, true)
		if !excluded(pv) {
			want := strings.ReplaceAll(string(pv), "\x00", " ")
			if d := data(auparse.AUDIT_PROCTITLE, "proctitle="+kenc(pv)); d != nil && d["proctitle"] != want {
				fail("proctitle", "%q -> %q want %q", pv, d["proctitle"], want)
			}
		}
		// unix path
		up := randVal(rng, 6, false)
		for j := range up {
			if up[j] == 0 {
				up[j] = 'x'
			}
		}
		sa := fmt.Sprintf("0100%X00", up)
		if d := data(auparse.AUDIT_SOCKADDR, "saddr="+sa); d != nil && (d["family"] != "unix" || d["path"] != string(up)) {
			fail("unix", "%q -> %v", up, d)
		}
		// ipv4
		ip := make([]byte, 4)
		rng.Read(ip)
		port := rng.Intn(65536)
		sa = fmt.Sprintf("0200%04X%X0000000000000000", port, ip)
		if d := data(auparse.AUDIT_SOCKADDR, "saddr="+sa); d != nil && (d["family"] != "ipv4" || d["addr"] != net.IP(ip).String() || d["port"] != fmt.Sprint(port)) {
			fail("ipv4", "%v:%d -> %v", ip, port, d)
		}
		ip6 := make([]byte, 16)
		rng.Read(ip6)
		if rng.Intn(2) == 0 {
			for j := 2; j < 14; j++ {
				ip6[j] = 0
			}
		}
		sa = fmt.Sprintf("0A00%04X00000000%X00000000", port, ip6)
		if d := data(auparse.AUDIT_SOCKADDR, "saddr="+sa); d != nil && (d["family"] != "ipv6" || d["addr"] != net.IP(ip6).String() || d["port"] != fmt.Sprint(port)) {
			fail("ipv6", "%x:%d -> %v", ip6, port, d)
		}
		// plain unquoted value
		pl := make([]byte, 1+rng.Intn(6))
		for j := range pl {
			for {
				c := byte(0x21 + rng.Intn(0x5e))
				if c != '"' && c != '\'' {
					pl[j] = c
					break
				}
			}
		}
		d := data(auparse.AUDIT_CWD, "foo="+string(pl)+" bar=1")
		if d != nil {
			drop := string(pl) == "?" || string(pl) == "?," || string(pl) == "(null)"
			got, ok := d["foo"]
			if drop && ok {
				fail("placeholder", "%q kept", pl)
			}
			if !drop && got != string(pl) {
				fail("plain", "%q -> %q (present=%v)", pl, got, ok)
			}
			if d["bar"] != "1" {
				fail("plain-next", "%q broke next field: %v", pl, d)
			}
		}
	}
	t.Log("violations:", viol)
}
