package designprobes

import (
	"sync"
	"sync/atomic"
	"testing"
	"time"

	libaudit "github.com/elastic/go-libaudit/v2"
	"github.com/elastic/go-libaudit/v2/auparse"
)

type cstream struct {
	mu    sync.Mutex
	seen  map[*auparse.AuditMessage]int
	r     **libaudit.Reassembler
	multi int32
}

func (s *cstream) ReassemblyComplete(m []*auparse.AuditMessage) {
	s.mu.Lock()
	for _, x := range m {
		s.seen[x]++
		if x.Sequence != m[0].Sequence {
			atomic.AddInt32(&s.multi, 1)
		}
	}
	s.mu.Unlock()
	if len(m)%2 == 0 {
		(*s.r).Maintain() // re-enter
	}
}
func (s *cstream) EventsLost(int) {}

func TestC11Stress(t *testing.T) {
	deadline := time.Now().Add(20 * time.Second)
	iters := 0
	for time.Now().Before(deadline) {
		iters++
		var r *libaudit.Reassembler
		s := &cstream{seen: map[*auparse.AuditMessage]int{}, r: &r}
		r, _ = libaudit.NewReassembler(2, time.Hour, s)
		var wg sync.WaitGroup
		var pushedBefore []*auparse.AuditMessage
		var pmu sync.Mutex
		var closeInvoked int32
		okClose := int32(0)
		for g := 0; g < 3; g++ {
			wg.Add(1)
			go func(g int) {
				defer wg.Done()
				for i := 0; i < 20; i++ {
					m := &auparse.AuditMessage{Sequence: uint32(100 + (i+g)%6), RecordType: []auparse.AuditMessageType{1300, 1302, 1320, 1327}[(i+g)%4]}
					ci := atomic.LoadInt32(&closeInvoked)
					r.PushMessage(m)
					if ci == 0 && atomic.LoadInt32(&closeInvoked) == 0 && m.RecordType != 1320 {
						pmu.Lock()
						pushedBefore = append(pushedBefore, m)
						pmu.Unlock()
					}
					if i%5 == 0 {
						r.Maintain()
					}
				}
			}(g)
		}
		for c := 0; c < 2; c++ {
			wg.Add(1)
			go func() {
				defer wg.Done()
				time.Sleep(time.Duration(iters%50) * time.Microsecond)
				atomic.StoreInt32(&closeInvoked, 1)
				if r.Close() == nil {
					atomic.AddInt32(&okClose, 1)
				}
			}()
		}
		wg.Wait()
		if okClose != 1 {
			t.Fatalf("okClose=%d", okClose)
		}
		if s.multi != 0 {
			t.Fatal("multi-seq group")
		}
		for m, n := range s.seen {
			if n > 1 {
				t.Fatalf("delivered %d times seq %d", n, m.Sequence)
			}
		}
		for _, m := range pushedBefore {
			if s.seen[m] != 1 {
				t.Fatalf("pushed-before-close msg seq=%d typ=%d delivered %d times", m.Sequence, m.RecordType, s.seen[m])
			}
		}
	}
	t.Log("iterations", iters)
}
