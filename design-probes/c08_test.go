package designprobes

import (
	"bytes"
	"errors"
	"fmt"
	"math/rand"
	"syscall"
	"testing"
	"unsafe"

	libaudit "github.com/elastic/go-libaudit/v2"
)

type item struct {
	kind int // 0 msg, 1 EINTR, 2 EAGAIN, 3 hard error
	b    []byte
}
type plan struct {
	seq      uint32
	typ      uint16
	errno    int32 // kernel verdict
	acked    bool  // script contains a proper ACK for this request
	foreign  bool
	wrongTyp bool
	short    bool
	silent   bool
	data     [][]byte
}
type sim struct {
	rng      *rand.Rand
	seq      uint32
	queue    []item
	plans    []*plan
	buf      []byte
	closes   int
	sent     []syscall.NetlinkMessage
	consumed map[uint32]int
	faults   int
}

func nl(seq uint32, typ uint16, payload []byte) []byte {
	b := make([]byte, 16+len(payload))
	h := (*syscall.NlMsghdr)(unsafe.Pointer(&b[0]))
	h.Len, h.Type, h.Seq = uint32(len(b)), typ, seq
	copy(b[16:], payload)
	return b
}
func ackPayload(errno int32, n int) []byte {
	p := make([]byte, 20)
	*(*int32)(unsafe.Pointer(&p[0])) = -errno
	return p[:n]
}
func (s *sim) noise() {
	for n := s.rng.Intn(3); n > 0; n-- {
		s.queue = append(s.queue, item{0, nl(0, uint16(1300+s.rng.Intn(30)), []byte("audit(1.0:1): x"))})
	}
	if s.faults > 0 && s.rng.Intn(2) == 0 {
		for n := 1 + s.rng.Intn(3); n > 0 && s.faults > 0; n-- {
			s.queue = append(s.queue, item{1 + s.rng.Intn(2), nil})
			s.faults--
		}
	}
}
func (s *sim) Send(m syscall.NetlinkMessage) (uint32, error) {
	s.seq++
	seq := s.seq
	s.sent = append(s.sent, m)
	p := &plan{seq: seq, typ: m.Header.Type}
	s.plans = append(s.plans, p)
	if s.rng.Intn(3) > 0 {
		p.errno = 0
	} else {
		p.errno = int32(1 + s.rng.Intn(133))
	}
	s.noise()
	switch s.rng.Intn(12) {
	case 0:
		p.foreign = true
		s.queue = append(s.queue, item{0, nl(seq+7, syscall.NLMSG_ERROR, ackPayload(0, 20))})
		return seq, nil
	case 1:
		p.wrongTyp = true
		s.queue = append(s.queue, item{0, nl(seq, 1305, ackPayload(0, 20))})
		return seq, nil
	case 2:
		p.short = true
		s.queue = append(s.queue, item{0, nl(seq, syscall.NLMSG_ERROR, ackPayload(0, 3))})
		return seq, nil
	case 3:
		p.silent = true
		return seq, nil
	}
	p.acked = true
	s.queue = append(s.queue, item{0, nl(seq, syscall.NLMSG_ERROR, ackPayload(p.errno, 20))})
	if p.errno == 0 {
		switch m.Header.Type {
		case 1000:
			s.noise()
			d := make([]byte, 32+4*s.rng.Intn(4))
			s.rng.Read(d)
			p.data = [][]byte{d}
			s.queue = append(s.queue, item{0, nl(seq, 1000, d)})
		case 1013:
			for n := s.rng.Intn(3); n > 0; n-- {
				s.noise()
				d := make([]byte, 1040+s.rng.Intn(8))
				s.rng.Read(d)
				p.data = append(p.data, d)
				s.queue = append(s.queue, item{0, nl(seq, 1013, d)})
			}
			s.queue = append(s.queue, item{0, nl(seq, syscall.NLMSG_DONE, nil)})
		}
	}
	return seq, nil
}
func (s *sim) Receive(nb bool, p libaudit.NetlinkParser) ([]syscall.NetlinkMessage, error) {
	if len(s.queue) == 0 {
		return nil, syscall.EAGAIN
	}
	it := s.queue[0]
	s.queue = s.queue[1:]
	switch it.kind {
	case 1:
		return nil, syscall.EINTR
	case 2:
		return nil, syscall.EAGAIN
	case 3:
		return nil, syscall.ENOBUFS
	}
	n := copy(s.buf, it.b)
	return p(s.buf[:n])
}
func (s *sim) Close() error { s.closes++; return nil }

func TestC08Random(t *testing.T) {
	rng := rand.New(rand.NewSource(8))
	viol := map[string]int{}
	fail := func(l, f string, a ...interface{}) {
		viol[l]++
		if viol[l] <= 3 {
			t.Logf("VIOL %s: %s", l, fmt.Sprintf(f, a...))
		}
	}
	names := []string{"GetStatus", "GetRules", "AddRule", "DeleteRule", "SetEnabled", "SetFailure", "SetRateLimit", "SetBacklogLimit", "SetBacklogWaitTime", "SetImmutable", "SetPID"}
	for it := 0; it < 1500; it++ {
		s := &sim{rng: rng, seq: rng.Uint32(), buf: make([]byte, 9000), faults: rng.Intn(3)}
		if it%5 == 0 {
			s.seq = 0xFFFFFFFF - uint32(rng.Intn(2))
		}
		c := &libaudit.AuditClient{Netlink: s}
		for op := 0; op < 1+rng.Intn(2); op++ {
			if len(s.queue) > 0 {
				break // leftover script from a failed op; stop this history
			}
			k := rng.Intn(len(names))
			var err error
			var st *libaudit.AuditStatus
			var rules [][]byte
			switch names[k] {
			case "GetStatus":
				st, err = c.GetStatus()
			case "GetRules":
				rules, err = c.GetRules()
			case "AddRule":
				err = c.AddRule([]byte("r"))
			case "DeleteRule":
				err = c.DeleteRule([]byte("r"))
			case "SetEnabled":
				err = c.SetEnabled(true, libaudit.WaitForReply)
			case "SetFailure":
				err = c.SetFailure(libaudit.FailureMode(1), libaudit.WaitForReply)
			case "SetRateLimit":
				err = c.SetRateLimit(5, libaudit.WaitForReply)
			case "SetBacklogLimit":
				err = c.SetBacklogLimit(5, libaudit.WaitForReply)
			case "SetBacklogWaitTime":
				err = c.SetBacklogWaitTime(5, libaudit.WaitForReply)
			case "SetImmutable":
				err = c.SetImmutable(libaudit.WaitForReply)
			case "SetPID":
				err = c.SetPID(libaudit.WaitForReply)
			}
			p := s.plans[len(s.plans)-1]
			wantOK := p.acked && p.errno == 0
			if wantOK != (err == nil) {
				fail("verdict:"+names[k], "plan seq=%d errno=%d acked=%v foreign=%v wrongTyp=%v short=%v silent=%v err=%v", p.seq, p.errno, p.acked, p.foreign, p.wrongTyp, p.short, p.silent, err)
			}
			if p.acked && p.errno != 0 && err != nil && !errors.Is(err, syscall.Errno(p.errno)) && !(names[k] == "AddRule" && p.errno == int32(syscall.EEXIST)) {
				fail("errno:"+names[k], "plan errno %d err=%v", p.errno, err)
			}
			if wantOK && err == nil {
				switch names[k] {
				case "GetStatus":
					var want libaudit.AuditStatus
					want.FromWireFormat(p.data[0])
					if *st != want {
						fail("status-data", "")
					}
				case "GetRules":
					if len(rules) != len(p.data) {
						fail("rules-count", "%d vs %d", len(rules), len(p.data))
					} else {
						for i := range rules {
							if !bytes.Equal(rules[i], p.data[i]) {
								fail("rules-data", "")
							}
						}
					}
				}
			}
		}
	}
	t.Log("violations:", viol)
}
