package designprobes

import (
	"testing"

	"github.com/elastic/go-libaudit/v2/rule"
	"github.com/elastic/go-libaudit/v2/rule/flags"
)

func TestC07More(t *testing.T) {
	for _, r := range []string{
		"-a always,user -F msgtype=70000",
		"-a always,exit -S open -F filetype=fifo",
		"-a always,exit -S open -F gid=4294967295",
		"-a never,exit -S all -F path=/etc/hosts -F perm=r",
		"-a always,exit -S all -F perm=r -F path=/etc/hosts",
		"-a always,exit -S open -F a0&=0x10 -F exit=-11",
		"-a always,exit -S open -C uid!=euid -F success=1",
	} {
		rr, err := flags.Parse(r)
		if err != nil {
			t.Log(r, "parse err", err)
			continue
		}
		w1, err := rule.Build(rr)
		if err != nil {
			t.Log(r, "build err", err)
			continue
		}
		txt, err := rule.ToCommandLine(w1, false)
		if err != nil {
			t.Log(r, "=> tocmd err", err)
			continue
		}
		rr2, err := flags.Parse(txt)
		if err != nil {
			t.Log(r, "=>", txt, "reparse err", err)
			continue
		}
		w2, err := rule.Build(rr2)
		if err != nil {
			t.Logf("%q => %q rebuild err %v", r, txt, err)
			continue
		}
		t.Logf("%q => %q same=%v", r, txt, string(w1) == string(w2))
	}
}
