package designprobes

import (
	"fmt"
	"testing"

	"github.com/elastic/go-libaudit/v2/aucoalesce"
	"github.com/elastic/go-libaudit/v2/auparse"
)

func mk(t *testing.T, lines ...string) []*auparse.AuditMessage {
	var msgs []*auparse.AuditMessage
	for _, l := range lines {
		m, err := auparse.ParseLogLine(l)
		if err != nil {
			t.Fatal(err, l)
		}
		msgs = append(msgs, m)
	}
	return msgs
}

func TestAlias(t *testing.T) {
	// non-SYSCALL primary record (AVC) + SYSCALL record with different syscalls
	avc := `type=AVC msg=audit(1524849206.224:%d): apparmor="AUDIT" operation="unlink" profile="p" name="/x" pid=1 comm="c" requested_mask="d" fsuid=100 ouid=100`
	sys := `type=SYSCALL msg=audit(1524849206.224:%d): arch=c000003e syscall=%d success=yes exit=0 a0=0 a1=0 a2=0 a3=0 items=0 ppid=1 pid=2 auid=4294967295 uid=0 gid=0 euid=0 suid=0 fsuid=0 egid=0 sgid=0 fsgid=0 tty=pts0 ses=4294967295 comm="c" exe="/bin/c" key=(null)`
	for _, typ := range []string{"AVC", "USER_AVC", "SECCOMP", "ANOM_ABEND", "NETFILTER_CFG", "MAC_STATUS", "CONFIG_CHANGE", "LOGIN", "USER_AUTH"} {
		for _, pair := range [][2]int{{87, 42}, {42, 59}, {2, 165}} {
			l1 := fmt.Sprintf(avc, 1)
			l1 = "type=" + typ + l1[len("type=AVC"):]
			e1, err := aucoalesce.CoalesceMessages(mk(t, l1, fmt.Sprintf(sys, 1, pair[0])))
			if err != nil {
				t.Fatal(err)
			}
			snapCat := fmt.Sprint(e1.ECS.Event.Category, e1.ECS.Event.Type)
			caps := fmt.Sprint(cap(e1.ECS.Event.Category), len(e1.ECS.Event.Category), cap(e1.ECS.Event.Type), len(e1.ECS.Event.Type))
			l2 := fmt.Sprintf(avc, 2)
			l2 = "type=" + typ + l2[len("type=AVC"):]
			_, err = aucoalesce.CoalesceMessages(mk(t, l2, fmt.Sprintf(sys, 2, pair[1])))
			if err != nil {
				t.Fatal(err)
			}
			after := fmt.Sprint(e1.ECS.Event.Category, e1.ECS.Event.Type)
			if after != snapCat {
				t.Logf("ALIAS %s %v: before %s after %s caps %s", typ, pair, snapCat, after, caps)
			}
		}
	}
}
