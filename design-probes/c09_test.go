package designprobes

import (
	"fmt"
	"math/rand"
	"strconv"
	"strings"
	"testing"

	"github.com/elastic/go-libaudit/v2/aucoalesce"
	"github.com/elastic/go-libaudit/v2/auparse"
)

func present(ev *aucoalesce.Event, rt auparse.AuditMessageType, k, v string) bool {
	if ev.Data[k] == v {
		return true
	}
	if rt == auparse.AUDIT_SOCKADDR && ev.Data["socket_"+k] == v {
		return true
	}
	for _, p := range ev.Paths {
		if x, ok := p[k]; ok && x == v {
			return true
		}
	}
	pr := ev.Process
	switch k {
	case "pid":
		return pr.PID == v
	case "ppid":
		return pr.PPID == v
	case "proctitle":
		return pr.Title == v
	case "comm":
		return pr.Name == v
	case "exe":
		return pr.Exe == v
	case "cwd":
		return pr.CWD == v
	case "result":
		return ev.Result == v
	case "ses":
		return ev.Session == v
	}
	if ev.User.IDs[k] == v && (strings.HasSuffix(k, "uid") || strings.HasSuffix(k, "gid")) {
		return true
	}
	if strings.HasPrefix(k, "subj_") && ev.User.SELinux[k[5:]] == v {
		return true
	}
	if rt == auparse.AUDIT_EXECVE && len(k) > 1 && k[0] == 'a' {
		if i, err := strconv.Atoi(k[1:]); err == nil && i < len(pr.Args) && pr.Args[i] == v {
			return true
		}
	}
	if ev.Source != nil && (ev.Source.IP == v || ev.Source.Port == v || ev.Source.Path == v) {
		return true
	}
	if ev.Dest != nil && (ev.Dest.IP == v || ev.Dest.Port == v || ev.Dest.Path == v) {
		return true
	}
	return false
}

func TestC09Random(t *testing.T) {
	rng := rand.New(rand.NewSource(4))
	viol := map[string]int{}
	fail := func(l, f string, a ...interface{}) {
		viol[l]++
		if viol[l] <= 3 {
			t.Logf("VIOL %s: %s", l, fmt.Sprintf(f, a...))
		}
	}
	extraKeys := []string{"foo", "pid", "comm", "exe", "cwd", "uid", "fsuid", "ouid", "subj_user", "syscall", "ses", "result", "proctitle", "addr", "key", "items", "a0", "tty", "obj_role", "socket_port"}
	syscalls := []int{2, 42, 43, 59, 49, 87, 165, 83, 257}
	kinds := []int{0100644, 040755, 020620, 060660, 010600, 0120777, 0140755, 0104755, 0}
	for it := 0; it < 60000; it++ {
		hdr := fmt.Sprintf("msg=audit(1492800799.050:%d): ", 100+it%7)
		extra := func() string {
			s := ""
			for n := rng.Intn(3); n > 0; n-- {
				s += fmt.Sprintf(" %s=v%d", extraKeys[rng.Intn(len(extraKeys))], rng.Intn(1000))
			}
			return s
		}
		var lines []string
		sys := fmt.Sprintf("type=SYSCALL %sarch=c000003e syscall=%d success=%s exit=0 a0=1 a1=2 a2=3 a3=4 items=2 ppid=1 pid=326 auid=1000 uid=0 gid=0 euid=0 suid=0 fsuid=0 egid=0 sgid=0 fsgid=0 tty=pts0 ses=4 comm=\"c\" exe=\"/bin/c\" subj=u:r:t:s0 key=\"k1\"",
			hdr, syscalls[rng.Intn(len(syscalls))], []string{"yes", "no"}[rng.Intn(2)])
		special := rng.Intn(4) == 0
		if special {
			lines = append(lines, fmt.Sprintf("type=AVC %sapparmor=\"AUDIT\" operation=\"unlink\" profile=\"p\" requested_mask=\"d\"%s", hdr, extra()))
		}
		lines = append(lines, sys)
		var rest []string
		if rng.Intn(2) == 0 {
			rest = append(rest, fmt.Sprintf("type=CWD %scwd=\"/home/x\"%s", hdr, extra()))
		}
		np := rng.Intn(4)
		selMode := -1
		for p := 0; p < np; p++ {
			mode := kinds[rng.Intn(len(kinds))] | rng.Intn(01000)
			nt := []string{"NORMAL", "PARENT", "CREATE", "DELETE", "UNKNOWN"}[rng.Intn(5)]
			rest = append(rest, fmt.Sprintf("type=PATH %sitem=%d name=\"/p%d\" inode=%d dev=08:01 mode=%#o ouid=%d ogid=%d rdev=00:0%d nametype=%s%s", hdr, p, p, 100+p, mode, p, p+1, p, nt, extra()))
			_ = selMode
		}
		if rng.Intn(2) == 0 {
			argc := rng.Intn(3)
			s := fmt.Sprintf("type=EXECVE %sargc=%d", hdr, argc)
			for a := 0; a < argc; a++ {
				s += fmt.Sprintf(" a%d=\"arg%d\"", a, a)
			}
			rest = append(rest, s)
		}
		if rng.Intn(2) == 0 {
			rest = append(rest, fmt.Sprintf("type=SOCKADDR %ssaddr=02000050A9FEA9FE0000000000000000", hdr))
		}
		if rng.Intn(2) == 0 {
			rest = append(rest, fmt.Sprintf("type=PROCTITLE %sproctitle=6C73002D6C%s", hdr, extra()))
		}
		if rng.Intn(3) == 0 {
			rest = append(rest, fmt.Sprintf("type=BPRM_FCAPS %sfver=0 fp=0%s", hdr, extra()))
		}
		rng.Shuffle(len(rest), func(i, j int) { rest[i], rest[j] = rest[j], rest[i] })
		lines = append(lines, rest...)
		if rng.Intn(2) == 0 {
			lines = append(lines, "type=EOE "+hdr)
		}
		var msgs []*auparse.AuditMessage
		type kv struct {
			rt   auparse.AuditMessageType
			k, v string
		}
		var all []kv
		bad := false
		for _, l := range lines {
			m, err := auparse.ParseLogLine(l)
			if err != nil {
				bad = true
				break
			}
			msgs = append(msgs, m)
		}
		if bad {
			continue
		}
		for _, m := range msgs {
			d, err := m.Data()
			if err != nil {
				continue
			}
			for k, v := range d {
				all = append(all, kv{m.RecordType, k, v})
			}
		}
		ev, err := aucoalesce.CoalesceMessages(msgs)
		if err != nil {
			fail("err", "%v", err)
			continue
		}
		if !ev.Timestamp.Equal(msgs[0].Timestamp) || ev.Sequence != msgs[0].Sequence || ev.Type != msgs[0].RecordType {
			fail("identity", "%v", lines)
		}
		for _, e := range all {
			if e.rt == auparse.AUDIT_SYSCALL && e.k == "items" {
				continue
			}
			if !present(ev, e.rt, e.k, e.v) && len(ev.Warnings) == 0 {
				fail("lost:"+e.rt.String(), "%s=%s lost without warning; lines:\n  %s", e.k, e.v, strings.Join(lines, "\n  "))
			}
		}
		if ev.File != nil {
			// find which path mirrors
			var sel map[string]string
			for _, p := range ev.Paths {
				if p["name"] == ev.File.Path && p["inode"] == ev.File.Inode {
					sel = p
				}
			}
			if sel == nil {
				fail("file-mirror", "no PATH matches File %+v", ev.File)
			} else {
				if ev.File.UID != sel["ouid"] || ev.File.GID != sel["ogid"] || (ev.File.Device != sel["rdev"] && ev.File.Device != sel["dev"]) {
					fail("file-owner", "%+v vs %v", ev.File, sel)
				}
				mode, _ := strconv.ParseUint(sel["mode"], 8, 32)
				if ev.File.Mode != fmt.Sprintf("%04o", mode&07777) {
					fail("file-mode", "%s vs %o", ev.File.Mode, mode)
				}
				want := map[uint64]string{0100000: "file", 040000: "directory", 020000: "character-device", 060000: "block-device", 010000: "named-pipe", 0120000: "symlink", 0140000: "socket"}[mode&0170000]
				if want != "" && ev.Summary.Object.Type != want {
					fail("objtype:"+want, "got %q for mode %o", ev.Summary.Object.Type, mode)
				}
			}
		}
	}
	t.Log("violations:", viol)
}
