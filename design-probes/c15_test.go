package designprobes

import (
	"encoding/json"
	"fmt"
	"reflect"
	"sort"
	"testing"

	"github.com/elastic/go-libaudit/v2/aucoalesce"
	"github.com/elastic/go-libaudit/v2/auparse"
)

func snap(ev *aucoalesce.Event) string {
	b, _ := json.Marshal(ev)
	var w []string
	for _, e := range ev.Warnings {
		w = append(w, e.Error())
	}
	sort.Strings(w)
	return string(b) + fmt.Sprint(w)
}

func TestC15Seq(t *testing.T) {
	groups := [][]string{
		{`type=SYSCALL msg=audit(1.000:7): arch=c000003e syscall=59 success=yes exit=0 a0=0 a1=0 a2=0 a3=0 items=1 ppid=1 pid=2 auid=1000 uid=0 gid=0 euid=0 suid=0 fsuid=0 egid=0 sgid=0 fsgid=0 tty=pts0 ses=4 comm="c" exe="/bin/c" subj=u:r:t:s0 key="k"`,
			`type=EXECVE msg=audit(1.000:7): argc=2 a0="ls" a1="-l"`,
			`type=CWD msg=audit(1.000:7): cwd="/"`,
			`type=PATH msg=audit(1.000:7): item=0 name="/bin/ls" inode=1 dev=08:01 mode=0100755 ouid=0 ogid=0 rdev=00:00 nametype=NORMAL`,
			`type=PROCTITLE msg=audit(1.000:7): proctitle=6C73002D6C`},
		{`type=USER_LOGIN msg=audit(2.000:8): pid=1 uid=0 auid=1000 ses=3 msg='op=login id=1000 exe="/usr/sbin/sshd" hostname=h addr=10.0.0.1 terminal=ssh res=success'`},
		{`type=AVC msg=audit(3.000:9): apparmor="DENIED" operation="open" profile="p" name="/x" pid=1 comm="c" requested_mask="r" fsuid=0 ouid=0`,
			`type=SYSCALL msg=audit(3.000:9): arch=c000003e syscall=2 success=no exit=-13 a0=0 a1=0 a2=0 a3=0 items=0 ppid=1 pid=2 auid=1000 uid=0 gid=0 euid=0 suid=0 fsuid=0 egid=0 sgid=0 fsgid=0 tty=pts0 ses=4 comm="c" exe="/bin/c" key=(null)`},
	}
	for gi, g := range groups {
		msgs := mk(t, g...)
		type ms struct {
			d map[string]string
			t []string
			m map[string]interface{}
		}
		var before []ms
		for _, m := range msgs {
			d, _ := m.Data()
			dc := map[string]string{}
			for k, v := range d {
				dc[k] = v
			}
			tg, _ := m.Tags()
			before = append(before, ms{dc, append([]string(nil), tg...), m.ToMapStr()})
		}
		e1, err := aucoalesce.CoalesceMessages(msgs)
		if err != nil {
			t.Fatal(err)
		}
		s1 := snap(e1)
		for i, m := range msgs {
			d, _ := m.Data()
			tg, _ := m.Tags()
			if !reflect.DeepEqual(d, before[i].d) || !reflect.DeepEqual(append([]string(nil), tg...), before[i].t) || !reflect.DeepEqual(m.ToMapStr(), before[i].m) {
				t.Logf("group %d msg %d (%v): input changed", gi, i, m.RecordType)
			}
		}
		e2, _ := aucoalesce.CoalesceMessages(msgs)
		if snap(e2) != s1 {
			t.Logf("group %d: second coalesce differs", gi)
		}
		// other events + resolve ids must not alter e1
		for _, og := range groups {
			oe, _ := aucoalesce.CoalesceMessages(mk(t, og...))
			aucoalesce.ResolveIDs(oe)
		}
		if snap(e1) != s1 {
			t.Logf("group %d: earlier event altered", gi)
		}
	}
	_ = auparse.AUDIT_EOE
}
