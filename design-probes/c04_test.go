package designprobes

import (
	"fmt"
	"math/rand"
	"strings"
	"testing"
	"time"

	"github.com/elastic/go-libaudit/v2/auparse"
)

func TestC04Random(t *testing.T) {
	rng := rand.New(rand.NewSource(3))
	viol := map[string]int{}
	fail := func(l, f string, a ...interface{}) {
		viol[l]++
		if viol[l] <= 3 {
			t.Logf("VIOL %s: %s", l, fmt.Sprintf(f, a...))
		}
	}
	bodyAlphabet := []byte("abz019=:() \t\"'msg=,._-[]")
	for i := 0; i < 300000; i++ {
		typ := auparse.AuditMessageType(rng.Intn(65536))
		sec := rng.Int63n(1 << 34)
		switch rng.Intn(10) {
		case 0:
			sec = 0
		case 1:
			sec = 1<<34 - 1
		}
		ms := rng.Intn(1000)
		seq := rng.Uint32()
		switch rng.Intn(10) {
		case 0:
			seq = 0
		case 1:
			seq = 0xFFFFFFFF
		}
		body := make([]byte, rng.Intn(8))
		for j := range body {
			body[j] = bodyAlphabet[rng.Intn(len(bodyAlphabet))]
		}
		name := typ.String()
		if rng.Intn(2) == 0 {
			name = strings.ToLower(name)
		}
		after := fmt.Sprintf("audit(%d.%03d:%d): %s", sec, ms, seq, body)
		line := "type=" + name + " msg=" + after
		m, err := auparse.ParseLogLine(line)
		if err != nil || m == nil {
			fail("parse", "%v %q", err, line)
			continue
		}
		if m.RecordType != typ {
			fail("type", "%v vs %v %q", m.RecordType, typ, line)
		}
		if m.Timestamp.Unix() != sec || m.Timestamp.Nanosecond() != ms*1e6 || m.Timestamp.Location() != time.UTC {
			fail("ts", "%v %q", m.Timestamp, line)
		}
		if m.Sequence != seq {
			fail("seq", "%d %q", m.Sequence, line)
		}
		if m.RawData != strings.TrimSpace(after) {
			fail("raw", "%q vs %q", m.RawData, strings.TrimSpace(after))
		}
		m2, err := auparse.Parse(typ, after)
		if err != nil || m2.RecordType != m.RecordType || !m2.Timestamp.Equal(m.Timestamp) || m2.Sequence != m.Sequence || m2.RawData != m.RawData {
			fail("agree", "%q", line)
		}
		ms2 := m.ToMapStr()
		if ms2["record_type"] != typ.String() || ms2["sequence"] != fmt.Sprint(seq) || ms2["raw_msg"] != m.RawData || ms2["@timestamp"] != m.Timestamp.UTC().String() {
			fail("mapstr", "%v %q", ms2, line)
		}
	}
	// hostile body overriding well-known keys (type without mandatory fields)
	m, _ := auparse.ParseLogLine(`type=CWD msg=audit(5.007:9): cwd="/" record_type=zz sequence=77 raw_msg=q tags=a error=e`)
	t.Logf("hostile: %v", m.ToMapStr())
	t.Log("violations:", viol)
}
