package designprobes

import (
	"reflect"
	"testing"

	"github.com/elastic/go-libaudit/v2/aucoalesce"
	"github.com/elastic/go-libaudit/v2/auparse"
	"github.com/elastic/go-libaudit/v2/rule"
	"github.com/elastic/go-libaudit/v2/rule/flags"
)

func FuzzParse(f *testing.F) {
	f.Add(uint16(1300), "audit(1.000:7): arch=c000003e syscall=2 success=yes exit=-2 comm=\"x\" exe=\"/a\" key=(null)")
	f.Add(uint16(1306), "audit(1.000:7): saddr=02000050A9FEA9FE0000000000000000")
	f.Add(uint16(1309), "audit(1.000:7): argc=2 a0=\"ls\" a1=2D6C")
	f.Add(uint16(1400), "audit(1.000:7): avc:  denied  { read write } for  pid=1 comm=\"x\" scontext=a:b:c:d")
	f.Add(uint16(1006), "audit(1.000:7): pid=1 uid=0 old auid=4294967295 new auid=1000 res=1")
	f.Add(uint16(1104), "audit(1.000:7): pid=1 msg='op=PAM:setcred acct=\"root\" exe=\"/usr/bin/sudo\" (hostname=?, addr=?, terminal=/dev/pts/1 res=success)'")
	f.Fuzz(func(t *testing.T, typ uint16, s string) {
		m, err := auparse.Parse(auparse.AuditMessageType(typ), s)
		if (err == nil) != (m != nil) {
			t.Fatal("err/msg mismatch")
		}
		if m == nil {
			return
		}
		d1, e1 := m.Data()
		d2, e2 := m.Data()
		if !reflect.DeepEqual(d1, d2) || (e1 == nil) != (e2 == nil) {
			t.Fatal("Data not repeatable")
		}
		m.Tags()
		m.ToMapStr()
		aucoalesce.CoalesceMessages([]*auparse.AuditMessage{m})
	})
}

func FuzzLine(f *testing.F) {
	f.Add("type=SYSCALL msg=audit(1490137971.011:50406): foo=bar")
	f.Add("type=UNKNOWN[1329] msg=audit(1.000:7): x=y")
	f.Fuzz(func(t *testing.T, s string) {
		m, err := auparse.ParseLogLine(s)
		if (err == nil) != (m != nil) {
			t.Fatal("err/msg mismatch")
		}
	})
}

func FuzzToCmd(f *testing.F) {
	wf, _ := rule.Build(&rule.SyscallRule{Type: rule.AppendSyscallRuleType, List: "exit", Action: "always", Syscalls: []string{"open"}, Filters: []rule.FilterSpec{{Type: rule.ValueFilterType, LHS: "path", Comparator: "=", RHS: "/etc/x"}}})
	f.Add([]byte(wf))
	f.Fuzz(func(t *testing.T, b []byte) {
		if len(b) >= 12 { // avoid the known field_count / overflow panics to see others
			fc := uint32(b[8]) | uint32(b[9])<<8 | uint32(b[10])<<16 | uint32(b[11])<<24
			if fc > 64 {
				return
			}
		}
		if len(b) >= 1040 {
			for i := 0; i < 64; i++ {
				o := 524 + 4*i
				v := uint32(b[o]) | uint32(b[o+1])<<8 | uint32(b[o+2])<<16 | uint32(b[o+3])<<24
				if v > 1<<20 {
					return
				}
			}
		}
		rule.ToCommandLine(b, false)
	})
}

func FuzzFlags(f *testing.F) {
	f.Add("-a always,exit -F arch=b64 -S open -F uid>=1000 -k key")
	f.Add("-w /etc/passwd -p wa -k id")
	f.Add("-D -k x")
	f.Fuzz(func(t *testing.T, s string) {
		r, err := flags.Parse(s)
		if err == nil {
			rule.Build(r)
		}
	})
}
