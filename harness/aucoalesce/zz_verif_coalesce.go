// Harnesses for aucoalesce (C09, C15, and the normalisation-table clauses of C20). The YAML-driven
// tables are installed from the table image (zz_verif_tables_image.go, regenerated natively from the
// current tree on every run) because gopkg.in/yaml.v3 is reflection and cannot run in the engine.

package aucoalesce

import (
	"errors"
	"os/user"
	"sort"
	"strconv"
	"strings"

	"github.com/elastic/go-libaudit/v2/auparse"
)

func init() {
	vEntries["VH_NormTables"] = VH_NormTables
	vEntries["VH_EventTypeStable"] = VH_EventTypeStable
	vEntries["VH_FileObject"] = VH_FileObject
	vEntries["VH_Conservation"] = VH_Conservation
	vEntries["VH_Repeatable"] = VH_Repeatable
}

// ---- C20: normalisation table consistency ----------------------------------------------------

func VH_NormTables() {
	vInstallTableImage()
	// every record type named in the table is one the parser can produce
	rts := make([]string, 0, len(recordTypeNorms))
	for k := range recordTypeNorms {
		rts = append(rts, k)
	}
	sort.Strings(rts)
	for _, name := range rts {
		t, err := auparse.GetAuditMessageType(name)
		ok := err == nil && t.String() == name
		switch {
		case vKF("C20-normalization-names-dead-record-types") && (name == "AUDIT_ANOM_LOGIN_ACCT" || name == "ANOM_MK_EXE"):
			vKnown("C20-normalization-names-dead-record-types", ok)
		default:
			vAssert(ok, "C20/normalization-names-a-record-type-the-parser-cannot-produce")
		}
		// at most one normalisation without has_fields per record type
		n := 0
		for _, norm := range recordTypeNorms[name] {
			if len(norm.HasFields.Values) == 0 {
				n++
			}
		}
		vAssert(n <= 1, "C20/two-unqualified-normalizations-for-one-record-type")
	}
	// every syscall named in the table occurs in at least one architecture's table
	scs := make([]string, 0, len(syscallNorms))
	for k := range syscallNorms {
		scs = append(scs, k)
	}
	sort.Strings(scs)
	known := map[string]bool{}
	for _, table := range auparse.AuditSyscalls {
		for _, name := range table {
			known[name] = true
		}
	}
	dead := map[string]bool{"futimens": true, "seteuid": true, "setegid": true, "fstatat": true}
	for _, name := range scs {
		if name == "*" {
			continue
		}
		if vKF("C20-normalization-names-dead-syscalls") && dead[name] {
			vKnown("C20-normalization-names-dead-syscalls", known[name])
			continue
		}
		vAssert(known[name], "C20/normalization-names-a-syscall-in-no-architecture-table")
	}
	vAssert(len(rts) > 50 && len(scs) > 100, "C20/normalization-table-unexpectedly-small")
}

// VH_EventTypeStable: every record type is categorised the same way on every call, also when Go's
// map iteration order changes (explored at two orders: insertion order and its reverse).
func VH_EventTypeStable() {
	t := auparse.AuditMessageType(vU16("type"))
	vMapOrder(false)
	a := GetAuditEventType(t)
	b := GetAuditEventType(t)
	vMapOrder(true)
	c := GetAuditEventType(t)
	vMapOrder(false)
	vAssert(a == b, "C20/event-type-differs-between-calls")
	vAssert(a == c, "C20/event-type-depends-on-map-iteration-order")
	vAssert(a.String() != "", "C20/event-type-without-name")
}

// ---- C09: file object mirrors the selected PATH record -----------------------------------------

func vOct(mode uint16) string {
	// octal rendering of a 16-bit st_mode, as the kernel prints it (at least 4 digits, here 6 or 7)
	d := []byte{'0', '0' + byte(mode>>15&1), '0' + byte(mode>>12&7), '0' + byte(mode>>9&7), '0' + byte(mode>>6&7), '0' + byte(mode>>3&7), '0' + byte(mode&7)}
	return string(d)
}

func VH_FileObject() {
	vInstallTableImage()
	mode := vU16("mode")
	sysName := []string{"open", "rename", "unlink", "mknod", "mount"}[vChoose("syscall", vParam("nsys", 3))]
	npaths := 1 + vChoose("npaths", vParam("maxpaths", 2))
	sel := vChoose("selected", npaths)
	sys := auparse.VNewMessage(auparse.AUDIT_SYSCALL, 7, 100, map[string]string{"syscall": sysName, "result": "success", "auid": "1000", "uid": "0", "ses": "3", "exe": "/bin/x", "pid": "5", "items": strconv.Itoa(npaths)}, nil, nil)
	msgs := []*auparse.AuditMessage{sys}
	var recs []map[string]string
	for i := 0; i < npaths; i++ {
		nt := "PARENT"
		if i == sel {
			// (with nametypes=5 this record too may be PARENT or UNKNOWN: no record is then an obvious object)
			nt = []string{"NORMAL", "CREATE", "DELETE", "PARENT", "UNKNOWN"}[vChoose("nametype", vParam("nametypes", 3))]
		}
		is := strconv.Itoa(i)
		d := map[string]string{"item": is, "name": "/p/n" + is, "inode": "10" + is, "dev": "08:0" + is, "rdev": "00:1" + is, "ouid": "5" + is, "ogid": "6" + is, "nametype": nt, "mode": "0100644"}
		if i == sel {
			d["mode"] = vOct(mode)
		}
		recs = append(recs, d)
		msgs = append(msgs, auparse.VNewMessage(auparse.AUDIT_PATH, 7, 100, d, nil, nil))
	}
	ev, err := CoalesceMessages(msgs)
	vAssert(err == nil && ev != nil, "C09/well-formed-group-rejected")
	if ev == nil {
		return
	}
	vAssert(ev.Sequence == 7 && ev.Type == auparse.AUDIT_SYSCALL && ev.Timestamp.Unix() == 100, "C09/event-identity")
	if ev.File == nil {
		vReach("C09/no-file-object")
		return
	}
	// which record did the normalisation select? (names are unique)
	var rec map[string]string
	for _, d := range recs {
		if d["name"] == ev.File.Path {
			rec = d
		}
	}
	vAssert(rec != nil, "C09/file-path-is-no-record's-name")
	if rec == nil {
		return
	}
	vAssert(ev.File.Inode == rec["inode"] && ev.File.UID == rec["ouid"] && ev.File.GID == rec["ogid"], "C09/file-does-not-mirror-path-record")
	vAssert(ev.File.Device == rec["rdev"] || ev.File.Device == rec["dev"], "C09/file-device")
	if rec["mode"] != vOct(mode) {
		return // a PARENT record was selected (its mode is concrete): nothing symbolic to check
	}
	perm := mode & 07777
	want := string([]byte{'0' + byte(perm>>9&7), '0' + byte(perm>>6&7), '0' + byte(perm>>3&7), '0' + byte(perm&7)})
	vAssert(ev.File.Mode == want, "C09/file-mode-is-not-the-permission-bits")
	kinds := []struct {
		bits uint16
		name string
	}{{0100000, "file"}, {0040000, "directory"}, {0020000, "character-device"}, {0060000, "block-device"}, {0010000, "named-pipe"}, {0120000, "symlink"}, {0140000, "socket"}}
	fmtBits := mode & 0170000
	for _, k := range kinds {
		if fmtBits == k.bits {
			if vKF("C09-objtype-nonregular") && k.bits != 0100000 {
				vKnown("C09-objtype-nonregular", ev.Summary.Object.Type == k.name)
			} else {
				vAssert(ev.Summary.Object.Type == k.name, "C09/object-type-disagrees-with-mode")
			}
		}
	}
}

// ---- C09: every key/value of every record is somewhere in the event --------------------------

type vRec struct {
	typ  auparse.AuditMessageType
	data map[string]string
	bad  bool // Data() fails
}

func vPresent(ev *Event, r vRec, k, v string) bool {
	if ev.Data[k] == v {
		return true
	}
	if r.typ == auparse.AUDIT_SOCKADDR && ev.Data["socket_"+k] == v {
		return true
	}
	for _, p := range ev.Paths {
		if p[k] == v {
			return true
		}
	}
	switch k {
	case "pid":
		return ev.Process.PID == v
	case "ppid":
		return ev.Process.PPID == v
	case "proctitle":
		return ev.Process.Title == v
	case "comm":
		return ev.Process.Name == v
	case "exe":
		return ev.Process.Exe == v
	case "cwd":
		return ev.Process.CWD == v
	case "result":
		return ev.Result == v
	case "ses":
		return ev.Session == v
	}
	if ev.User.IDs[k] == v {
		return true
	}
	if strings.HasPrefix(k, "subj_") && ev.User.SELinux[k[5:]] == v {
		return true
	}
	for _, a := range ev.Process.Args {
		if a == v {
			return true
		}
	}
	for _, ad := range []*Address{ev.Source, ev.Dest} {
		if ad != nil && (ad.IP == v || ad.Port == v || ad.Path == v) {
			return true
		}
	}
	return false
}

var vNeutralTypes = []auparse.AuditMessageType{auparse.AUDIT_CWD, auparse.AUDIT_PROCTITLE, auparse.AUDIT_AVC, auparse.AUDIT_BPRM_FCAPS}

func VH_Conservation() {
	vInstallTableImage()
	var recs []vRec
	uniq := 0
	val := func() string { uniq++; return "v" + strconv.Itoa(uniq) }
	// the leading record(s)
	shape := vParam("shape", 0)
	if shape == 0 {
		// a single record of a symbolic type
		t := auparse.AuditMessageType(vU16("type"))
		if vParam("named", 1) != 0 {
			t = []auparse.AuditMessageType{auparse.AUDIT_USER_LOGIN, auparse.AUDIT_CONFIG_CHANGE, auparse.AUDIT_USER_CMD, auparse.AUDIT_AVC, 1999, auparse.AUDIT_SYSCALL}[vChoose("type", 6)]
		}
		vAssume(t != auparse.AUDIT_EOE) // an EOE record on its own is not an event (it is rejected, rightly)
		d := map[string]string{}
		pool := []string{"result", "addr", "acct", "exe", "syscall", "x1", "ses", "auid", "uid", "gid", "subj_user", "pid", "ppid", "comm", "cwd", "op"}
		pool = pool[:vParam("npool", len(pool))]
		if vParam("boundaryvals", 0) != 0 {
			pool = []string{"ses", "auid", "uid", "gid", "pid", "ppid", "result"}
		}
		for _, k := range pool {
			if vChoose("has-"+k, 2) == 1 {
				d[k] = val()
			}
		}
		if vParam("boundaryvals", 0) != 0 {
			// one of the id-like keys carries a value that looks special (the all-ones id, -1, 0, the word
			// the parser uses for unset ids): the coalescer has no business rewriting it
			ids := []string{"uid", "gid", "auid", "ses", "pid", "ppid"}
			k := ids[vChoose("boundarykey", len(ids))]
			if _, ok := d[k]; ok {
				d[k] = []string{"4294967295", "-1", "0", "unset", "4294967294"}[vChoose("boundaryval", 5)]
			}
		}
		recs = append(recs, vRec{typ: t, data: d})
	} else if shape == 2 {
		// one record of each type the normalisation table knows, carrying every key that type's
		// normalisations refer to (minus at most one), with plain-token or address-literal values
		rts := make([]string, 0, len(recordTypeNorms))
		for k := range recordTypeNorms {
			rts = append(rts, k)
		}
		sort.Strings(rts)
		name := rts[vChoose("rt", len(rts))]
		t, err := auparse.GetAuditMessageType(name)
		if err != nil {
			vStop()
			return
		}
		set := map[string]bool{"auid": true, "uid": true, "ses": true, "pid": true, "result": true, "exe": true, "x1": true}
		for _, n := range recordTypeNorms[name] {
			for _, ss := range []Strings{n.SubjectPrimaryFieldName, n.SubjectSecondaryFieldName, n.ObjectPrimaryFieldName, n.ObjectSecondaryFieldName, n.How, n.SourceIP, n.HasFields} {
				for _, k := range ss.Values {
					set[k] = true
				}
			}
		}
		keys := make([]string, 0, len(set))
		for k := range set {
			keys = append(keys, k)
		}
		sort.Strings(keys)
		drop := vChoose("drop", len(keys)+1)
		literal := vChoose("literal", 2) == 1
		d := map[string]string{}
		for i, k := range keys {
			if i == drop {
				continue
			}
			d[k] = val()
			if literal && (k == "addr" || k == "laddr" || k == "hostname") {
				d[k] = "10.0.0." + strconv.Itoa(uniq)
			}
		}
		recs = append(recs, vRec{typ: t, data: d})
	} else {
		first := vChoose("first", 3) // 0: SYSCALL first, 1: another record first, 2: no SYSCALL at all
		sysData := map[string]string{"syscall": []string{"open", "connect", "execve", "zzz"}[vChoose("sys", 4)], "result": val(), "ses": val(), "auid": val(), "uid": val(), "items": "2", "pid": val(), "exe": val(), "comm": val(), "subj_role": val()}
		var head []vRec
		if first == 1 {
			head = append(head, vRec{typ: auparse.AUDIT_AVC, data: map[string]string{"seresult": val(), "scontext": val()}})
		}
		if first != 2 {
			head = append(head, vRec{typ: auparse.AUDIT_SYSCALL, data: sysData})
		} else {
			head = append(head, vRec{typ: auparse.AUDIT_CWD, data: map[string]string{"cwd": val()}})
		}
		// further records, any subset and order (bounded)
		n := vChoose("extra", vParam("maxextra", 2)+1)
		nExecve, nSock := 0, 0
		for i := 0; i < n; i++ {
			var r vRec
			switch vChoose("kind", 5) {
			case 0:
				r = vRec{typ: auparse.AUDIT_PATH, data: map[string]string{"name": val(), "inode": val(), "mode": "0100644", "ouid": val(), "ogid": val(), "rdev": val(), "nametype": "NORMAL", "obj_user": val()}}
			case 1:
				if nExecve > 0 {
					continue
				}
				nExecve++
				r = vRec{typ: auparse.AUDIT_EXECVE, data: map[string]string{"argc": "2", "a0": val(), "a1": val()}}
				if vKF("C09-execve-extra-keys-dropped") || vParam("execve_extra", 0) != 0 {
					if vChoose("execve-extra", 2) == 1 {
						r.data["a1_len"] = val()
					}
				}
			case 2:
				if nSock > 0 {
					continue
				}
				nSock++
				r = vRec{typ: auparse.AUDIT_SOCKADDR, data: map[string]string{"family": "ipv4", "addr": val(), "port": val()}}
				switch vChoose("sockfam", 4) {
				case 1:
					r.data = map[string]string{"family": "ipv6", "addr": val(), "port": val(), "flow": val()}
				case 2:
					r.data = map[string]string{"family": "unix", "path": val()}
				case 3:
					r.data = map[string]string{"family": "netlink", "saddr": val()}
				}
			case 3:
				r = vRec{typ: vNeutralTypes[vChoose("neutral", len(vNeutralTypes))], data: map[string]string{"cwd": val(), "proctitle": val(), "y" + strconv.Itoa(i): val()}}
				switch vChoose("collide", 3) {
				case 1:
					r.data["exe"] = val() // collides with the SYSCALL record's key
				case 2:
					r.data["result"] = val() // the record's own outcome (res=...), next to the SYSCALL's
				}
			case 4:
				r = vRec{typ: auparse.AUDIT_PATH, bad: true} // a record whose Data() fails
			}
			recs = append(recs, r)
		}
		// the SYSCALL record may come anywhere among the other records; a leading AVC stays first
		pos := 0
		if vParam("anyorder", 1) != 0 {
			pos = vChoose("syscallpos", len(recs)+1)
		}
		var all []vRec
		if len(head) == 2 {
			all = append(all, head[0])
			head = head[1:]
		}
		all = append(all, recs[:pos]...)
		all = append(all, head...)
		all = append(all, recs[pos:]...)
		recs = all
	}
	var msgs []*auparse.AuditMessage
	for _, r := range recs {
		if r.bad {
			msgs = append(msgs, auparse.VNewMessage(r.typ, 9, 200, nil, nil, errors.New("broken record")))
			continue
		}
		cp := map[string]string{}
		for k, v := range r.data {
			cp[k] = v
		}
		msgs = append(msgs, auparse.VNewMessage(r.typ, 9, 200, cp, nil, nil))
	}
	ev, err := CoalesceMessages(msgs)
	hasSyscall := false
	for _, r := range recs {
		if r.typ == auparse.AUDIT_SYSCALL {
			hasSyscall = true
		}
	}
	if len(recs) > 1 && !hasSyscall {
		vAssert(err != nil && ev == nil, "C09/partial-event-for-group-without-syscall")
		return
	}
	vAssert(err == nil && ev != nil, "C09/well-formed-group-rejected")
	if ev == nil {
		return
	}
	vAssert(ev.Sequence == 9 && ev.Timestamp.Unix() == 200 && ev.Type == recs[0].typ, "C09/event-identity")
	lostAny := false
	lostExecveExtra := false
	build := func(skip int) []*auparse.AuditMessage {
		var out []*auparse.AuditMessage
		for i, r := range recs {
			if i == skip {
				continue
			}
			if r.bad {
				out = append(out, auparse.VNewMessage(r.typ, 9, 200, nil, nil, errors.New("broken record")))
				continue
			}
			cp := map[string]string{}
			for k, v := range r.data {
				cp[k] = v
			}
			out = append(out, auparse.VNewMessage(r.typ, 9, 200, cp, nil, nil))
		}
		return out
	}
	for ri, r := range recs {
		if r.bad {
			vAssert(len(ev.Warnings) > 0, "C09/broken-record-dropped-without-warning")
			continue
		}
		ks := make([]string, 0, len(r.data))
		for k := range r.data {
			ks = append(ks, k)
		}
		sort.Strings(ks)
		lostHere := false
		for _, k := range ks {
			if r.typ == auparse.AUDIT_SYSCALL && k == "items" {
				continue // dropped on purpose
			}
			if !vPresent(ev, r, k, r.data[k]) {
				if r.typ == auparse.AUDIT_EXECVE && k != "argc" && !(len(k) >= 2 && k[0] == 'a' && k[1] >= '0' && k[1] <= '9' && !strings.Contains(k, "_")) {
					lostExecveExtra = true
				} else {
					lostAny = true
					lostHere = true
					// a warning excuses the loss only if it is about this value: the same group with a
					// plain token in its place keeps the token and draws just as many warnings -> the
					// warnings are about something else, and the value was rewritten or dropped silently
					if vParam("attribute_by_value", 0) != 0 && len(ev.Warnings) > 0 {
						orig := r.data[k]
						r.data[k] = "zz9"
						ev1, err1 := CoalesceMessages(build(-1))
						if err1 == nil && ev1 != nil && vPresent(ev1, r, k, "zz9") {
							vAssert(len(ev.Warnings) > len(ev1.Warnings), "C09/value-rewritten-and-no-warning-is-about-it")
						}
						r.data[k] = orig
					}
				}
			}
		}
		// the warning that excuses a loss must be attributable to the record: the same group without
		// this record must produce fewer warnings (not applied to the first record and to SYSCALL,
		// whose removal changes the event's identity)
		if lostHere && ri > 0 && r.typ != auparse.AUDIT_SYSCALL && len(recs) > 2 {
			ev0, err0 := CoalesceMessages(build(ri))
			if err0 == nil && ev0 != nil {
				vAssert(len(ev.Warnings) > len(ev0.Warnings), "C09/field-lost-and-no-warning-is-about-that-record")
			}
		}
	}
	if lostAny {
		vAssert(len(ev.Warnings) > 0, "C09/field-lost-without-warning")
	}
	if lostExecveExtra {
		if vKF("C09-execve-extra-keys-dropped") {
			vKnown("C09-execve-extra-keys-dropped", len(ev.Warnings) > 0)
		} else {
			vAssert(len(ev.Warnings) > 0, "C09/field-lost-without-warning")
		}
	}
}

// ---- C15: repeatable, inputs intact ------------------------------------------------------------

func vSnapshot(m *auparse.AuditMessage) (map[string]string, []string, bool) {
	d, err := m.Data()
	cp := map[string]string{}
	for k, v := range d {
		cp[k] = v
	}
	t, _ := m.Tags()
	return cp, append([]string(nil), t...), err != nil
}

func vSameMap(a, b map[string]string) bool {
	if len(a) != len(b) {
		return false
	}
	for k, v := range a {
		if w, ok := b[k]; !ok || w != v {
			return false
		}
	}
	return true
}

var vGroups = [][]string{
	{"1300|arch=c000003e syscall=59 success=yes exit=0 a0=1 items=2 ppid=1 pid=2 auid=1000 uid=0 gid=0 ses=3 comm=\"ls\" exe=\"/bin/ls\" key=\"k1\"",
		"1309|argc=2 a0=\"ls\" a1=\"-l\"", "1307|cwd=\"/root\"", "1302|item=0 name=\"/bin/ls\" inode=5 dev=08:01 mode=0100755 ouid=0 ogid=0 rdev=00:00 nametype=NORMAL"},
	{"1300|arch=c000003e syscall=42 success=no exit=-13 a0=3 items=0 ppid=1 pid=2 auid=4294967295 uid=33 gid=33 ses=4294967295 comm=\"nc\" exe=\"/bin/nc\" key=(null)",
		"1306|saddr=020000357F0000010000000000000000", "1327|proctitle=6E63002D6C"},
	{"1112|pid=1 uid=0 auid=1000 ses=5 msg='op=login acct=\"bob\" exe=\"/usr/sbin/sshd\" hostname=h addr=10.0.0.9 terminal=ssh res=success'"},
	{"1400|avc:  denied  { read } for  pid=9 comm=\"cat\" name=\"shadow\" dev=\"sda1\" ino=7 scontext=u:r:t:s0 tcontext=u:o:s:s0 tclass=file",
		"1300|arch=c000003e syscall=2 success=no exit=-13 a0=1 items=1 ppid=1 pid=9 auid=1000 uid=1000 gid=1000 ses=2 comm=\"cat\" exe=\"/bin/cat\" key=(null)"},
}

func vParseGroup(g []string, seq string) []*auparse.AuditMessage {
	var msgs []*auparse.AuditMessage
	for _, line := range g {
		bar := strings.IndexByte(line, '|')
		t, _ := strconv.Atoi(line[:bar])
		m, err := auparse.Parse(auparse.AuditMessageType(t), "audit(1490137971.011:"+seq+"): "+line[bar+1:])
		if err != nil {
			return nil
		}
		msgs = append(msgs, m)
	}
	return msgs
}

func vEventDigest(e *Event) string {
	if e == nil {
		return "<nil>"
	}
	var sb strings.Builder
	sb.WriteString(e.Result + "|" + e.Session + "|" + e.Summary.Actor.Primary + "|" + e.Summary.Actor.Secondary + "|" + e.Summary.Action + "|" + e.Summary.Object.Type + "|" + e.Summary.Object.Primary + "|" + e.Summary.How)
	sb.WriteString("|" + e.Process.PID + "|" + e.Process.Exe + "|" + e.Process.Title + "|" + strings.Join(e.Process.Args, ","))
	keys := func(m map[string]string) {
		ks := make([]string, 0, len(m))
		for k := range m {
			ks = append(ks, k)
		}
		sort.Strings(ks)
		for _, k := range ks {
			sb.WriteString(";" + k + "=" + m[k])
		}
	}
	sb.WriteString("|D")
	keys(e.Data)
	sb.WriteString("|I")
	keys(e.User.IDs)
	for _, p := range e.Paths {
		sb.WriteString("|P")
		keys(p)
	}
	sb.WriteString("|T" + strings.Join(e.Tags, ","))
	sb.WriteString("|C" + strings.Join(e.ECS.Event.Category, ",") + "|Y" + strings.Join(e.ECS.Event.Type, ","))
	sb.WriteString("|W" + strconv.Itoa(len(e.Warnings)))
	if e.File != nil {
		sb.WriteString("|F" + e.File.Path + "," + e.File.Mode + "," + e.File.Inode)
	}
	return sb.String()
}

func VH_Repeatable() {
	vInstallTableImage()
	vFreezeTables()
	gi := vChoose("group", len(vGroups))
	msgs := vParseGroup(vGroups[gi], "77")
	vAssert(msgs != nil, "C15/group-does-not-parse")
	if msgs == nil {
		return
	}
	// an EOE record may sit anywhere in the group (or nowhere)
	if eoe := vChoose("eoe", 4); eoe > 0 {
		m, _ := auparse.Parse(auparse.AUDIT_EOE, "audit(1490137971.011:77): ")
		if m != nil {
			at := len(msgs) // 1: last
			if eoe == 2 {
				at = len(msgs) / 2
			} else if eoe == 3 {
				at = 1
			}
			if at > len(msgs) {
				at = len(msgs)
			}
			msgs = append(msgs[:at:at], append([]*auparse.AuditMessage{m}, msgs[at:]...)...)
		}
	}
	slice0 := append([]*auparse.AuditMessage(nil), msgs...)
	type snap struct {
		d   map[string]string
		t   []string
		bad bool
	}
	var before []snap
	for _, m := range msgs {
		d, t, bad := vSnapshot(m)
		before = append(before, snap{d, t, bad})
	}
	e1, err1 := CoalesceMessages(msgs)
	d1 := vEventDigest(e1)
	intact := true
	for i, m := range msgs {
		d, t, bad := vSnapshot(m)
		if !vSameMap(d, before[i].d) || len(t) != len(before[i].t) || bad != before[i].bad {
			intact = false
		}
	}
	// the caller's slice itself holds the same messages in the same places
	for i := range slice0 {
		vAssert(msgs[i] == slice0[i], "C15/callers-slice-rearranged-by-coalescing")
	}
	// resolving IDs of the event leaves the messages and a later coalescing as they are
	d1r := d1
	if e1 != nil && vParam("resolve", 1) != 0 {
		ResolveIDsFromCaches(e1, NewUserCache(1000000000*60), NewGroupCache(1000000000*60))
		for i, m := range msgs {
			d, t, bad := vSnapshot(m)
			if !vSameMap(d, before[i].d) || len(t) != len(before[i].t) || bad != before[i].bad {
				intact = false
			}
		}
		d1r = vEventDigest(e1) // (the names changed the event itself, as they should)
	}
	e2, err2 := CoalesceMessages(msgs)
	same := (err1 == nil) == (err2 == nil) && vEventDigest(e2) == d1
	if vKF("C15-coalesce-mutates-cached-data") {
		vKnown("C15-coalesce-mutates-cached-data", intact && same)
	} else {
		vAssert(intact, "C15/input-messages-changed-by-coalescing")
		vAssert(same, "C15/second-coalesce-gives-a-different-event")
	}
	// coalescing another group must not alter the event returned earlier
	other := vParseGroup(vGroups[(gi+1)%len(vGroups)], "78")
	if other != nil {
		CoalesceMessages(other)
		vAssert(vEventDigest(e1) == d1r, "C15/earlier-event-altered-by-a-later-coalesce")
	}
	// one message in two groups: the SYSCALL record of this group with two different sets of companions
	// (rule keys, working directories). The first event stays what it was when the second one is built.
	if msgs[0].RecordType == auparse.AUDIT_SYSCALL {
		a := vParseGroup([]string{`1305|auid=1000 ses=3 op=add_rule key="rule-a" list=4 res=1`, `1307|cwd="/tmp/a"`}, "77")
		b := vParseGroup([]string{`1305|auid=1000 ses=3 op=add_rule key="rule-b" list=4 res=1`, `1307|cwd="/tmp/b"`, `1302|item=0 name="/b" inode=6 dev=08:01 mode=0100644 ouid=1 ogid=1 rdev=00:00 nametype=NORMAL`}, "77")
		if a != nil && b != nil {
			evA, _ := CoalesceMessages(append([]*auparse.AuditMessage{msgs[0]}, a...))
			dA := vEventDigest(evA)
			CoalesceMessages(append([]*auparse.AuditMessage{msgs[0]}, b...))
			vAssert(vEventDigest(evA) == dA, "C15/earlier-event-altered-by-a-later-coalesce")
		}
	}
}

// ---- C15: concurrent coalescing and ID resolution of different events ------------------------------

func init() { vEntries["VH_ConcurrentResolve"] = VH_ConcurrentResolve }

func VH_ConcurrentResolve() {
	vInstallTableImage()
	users, groups := NewUserCache(1000000000*60), NewGroupCache(1000000000*60)
	if vParam("expired", 0) != 0 {
		// entries are out of date the moment they are stored: every lookup takes the refresh path
		users, groups = NewUserCache(-1), NewGroupCache(-1)
	}
	n := vParam("threads", 2)
	events := make([]*Event, n)
	digests := make([]string, n)
	for i := 0; i < n; i++ {
		i := i
		g := vParseGroup(vGroups[(i+vParam("groupbase", 0))%len(vGroups)], "9"+strconv.Itoa(i)) // different messages per thread
		vGo(func() {
			e, _ := CoalesceMessages(g)
			if e != nil {
				ResolveIDsFromCaches(e, users, groups) // shared caches
			}
			events[i] = e
		})
	}
	vJoin()
	// sequential reference (computed after the concurrent phase, so that the threads start on cold caches): each group coalesced and resolved on its own, against fresh caches
	for i := 0; i < n; i++ {
		g := vParseGroup(vGroups[(i+vParam("groupbase", 0))%len(vGroups)], "9"+strconv.Itoa(i))
		e, _ := CoalesceMessages(g)
		if e != nil {
			ResolveIDsFromCaches(e, NewUserCache(1000000000*60), NewGroupCache(1000000000*60))
		}
		digests[i] = vEventDigest(e) + "|N" + strconv.Itoa(len(e.User.Names)) + e.Summary.Actor.Primary
	}
	for i := 0; i < n; i++ {
		e := events[i]
		vAssert(e != nil, "C15/concurrent-coalesce-failed")
		if e != nil {
			vAssert(vEventDigest(e)+"|N"+strconv.Itoa(len(e.User.Names))+e.Summary.Actor.Primary == digests[i], "C15/concurrent-result-differs-from-sequential")
		}
	}
}

// ---- C15: the shared normalisation tables stay as loaded --------------------------------------

// vFreezeTables declares every string list of the normalisation tables immutable (up to its
// capacity): events alias these lists, so a write is a change to events already handed out.
func vFreezeTables() {
	seen := map[*Normalization]bool{}
	fr := func(n *Normalization) {
		if n == nil || seen[n] {
			return
		}
		seen[n] = true
		for _, s := range []Strings{n.SubjectPrimaryFieldName, n.SubjectSecondaryFieldName, n.ObjectPrimaryFieldName, n.ObjectSecondaryFieldName,
			n.How, n.RecordTypes, n.Syscalls, n.SourceIP, n.HasFields, n.ECS.Category, n.ECS.Type} {
			vFreezeStrings("a normalisation table list", s.Values)
		}
	}
	for _, n := range syscallNorms {
		fr(n)
	}
	for _, ns := range recordTypeNorms {
		for _, n := range ns {
			fr(n)
		}
	}
}

func init() { vEntries["VH_TableIsolation"] = VH_TableIsolation }

// VH_TableIsolation: for every record type the table knows, an event made of that record and a
// SYSCALL record, then a second one with another syscall: the first event stays as returned, a
// third coalesce of the first group's text gives the first result again, and the tables are not written.
func VH_TableIsolation() {
	vInstallTableImage()
	vFreezeTables()
	rts := make([]string, 0, len(recordTypeNorms))
	for k := range recordTypeNorms {
		rts = append(rts, k)
	}
	sort.Strings(rts)
	name := rts[vChoose("rt", len(rts))]
	t, err := auparse.GetAuditMessageType(name)
	if err != nil {
		vStop()
		return
	}
	sysPairs := [][2]string{{"2", "85"}, {"85", "42"}, {"59", "105"}, {"42", "2"}}
	pr := sysPairs[vChoose("syscalls", len(sysPairs))]
	first := vChoose("order", 2)
	mk := func(sysno, seq string) []*auparse.AuditMessage {
		rec := strconv.Itoa(int(t)) + "|pid=1 uid=0 auid=1000 ses=5 msg='op=x acct=\"bob\" exe=\"/bin/x\" hostname=h addr=10.0.0.9 terminal=t res=success'"
		sys := "1300|arch=c000003e syscall=" + sysno + " success=yes exit=0 a0=1 items=0 ppid=1 pid=2 auid=1000 uid=0 gid=0 ses=3 comm=\"x\" exe=\"/bin/x\" key=(null)"
		if first == 0 {
			return vParseGroup([]string{rec, sys}, seq)
		}
		return vParseGroup([]string{sys, rec}, seq)
	}
	a := mk(pr[0], "81")
	vAssert(a != nil, "C15/group-does-not-parse")
	if a == nil {
		return
	}
	e1, _ := CoalesceMessages(a)
	d1 := vEventDigest(e1)
	if b := mk(pr[1], "82"); b != nil {
		CoalesceMessages(b)
	}
	vAssert(vEventDigest(e1) == d1, "C15/earlier-event-altered-by-a-later-coalesce")
	if a2 := mk(pr[0], "81"); a2 != nil {
		e3, _ := CoalesceMessages(a2)
		vAssert(vEventDigest(e3) == d1, "C15/outcome-for-the-same-messages-changed-by-other-events")
	}
}

// ---- C20: which normalisation an event gets depends on the event only ---------------------------

func init() { vEntries["VH_NormSelection"] = VH_NormSelection }

func vActionOf(typ auparse.AuditMessageType, seq uint32, data map[string]string) (string, int) {
	cp := map[string]string{}
	for k, v := range data {
		cp[k] = v
	}
	ev, err := CoalesceMessages([]*auparse.AuditMessage{auparse.VNewMessage(typ, seq, 200, cp, nil, nil)})
	if err != nil || ev == nil {
		return "<error>", 0
	}
	return ev.Summary.Action, len(ev.Warnings)
}

// VH_NormSelection: two events of one record type (or two SYSCALL events) with independently
// chosen qualifying fields, then the first one's content again. Each gets an action of a
// normalisation the table lists for it and whose has_fields it carries (the only one, if only one
// qualifies), and the same content gets the same action whatever was processed in between.
func VH_NormSelection() {
	vInstallTableImage()
	if vParam("syscalls", 0) != 0 {
		scs := make([]string, 0, len(syscallNorms))
		for k := range syscallNorms {
			scs = append(scs, k)
		}
		sort.Strings(scs)
		scs = append(scs, "zz_unlisted")
		a := scs[vChoose("sc1", len(scs))]
		b := []string{"open", "connect", "zz_unlisted", "setuid"}[vChoose("sc2", 4)]
		want := func(name string) string {
			if name == "*" || syscallNorms[name] == nil {
				return syscallNorms["*"].Action
			}
			return syscallNorms[name].Action
		}
		base := func(name string) map[string]string {
			return map[string]string{"syscall": name, "result": "success", "auid": "1000", "uid": "0", "ses": "3", "pid": "5", "exe": "/bin/x"}
		}
		a1, _ := vActionOf(auparse.AUDIT_SYSCALL, 9, base(a))
		b1, _ := vActionOf(auparse.AUDIT_SYSCALL, 10, base(b))
		a2, _ := vActionOf(auparse.AUDIT_SYSCALL, 11, base(a))
		if a != "*" {
			vAssert(a1 == want(a), "C20/syscall-gets-another-syscalls-normalisation")
		}
		vAssert(b1 == want(b), "C20/syscall-gets-another-syscalls-normalisation")
		vAssert(a2 == a1, "C20/normalisation-selection-depends-on-history")
		return
	}
	rts := make([]string, 0, len(recordTypeNorms))
	for k := range recordTypeNorms {
		rts = append(rts, k)
	}
	sort.Strings(rts)
	name := rts[vChoose("rt", len(rts))]
	t, err := auparse.GetAuditMessageType(name)
	if err != nil {
		vStop()
		return
	}
	norms := recordTypeNorms[name]
	variants := [][]string{nil}
	for _, n := range norms {
		if len(n.HasFields.Values) > 0 {
			variants = append(variants, n.HasFields.Values)
		}
	}
	mk := func(fs []string) map[string]string {
		d := map[string]string{"pid": "1", "uid": "0", "auid": "1000", "ses": "5", "result": "success", "acct": "bob"}
		for _, f := range fs {
			d[f] = "v"
		}
		return d
	}
	check := func(d map[string]string, action string, nwarn int) {
		var q []*Normalization
		for _, n := range norms {
			all := true
			for _, f := range n.HasFields.Values {
				if _, ok := d[f]; !ok {
					all = false
				}
			}
			if all {
				q = append(q, n)
			}
		}
		if len(q) == 0 {
			return // nothing qualifies: what happens then is not C20's subject
		}
		in := false
		for _, n := range q {
			if n.Action == action {
				in = true
			}
		}
		vAssert(in, "C20/event-gets-a-normalisation-whose-has_fields-it-lacks")
	}
	d1 := mk(variants[vChoose("v1", len(variants))])
	d2 := mk(variants[vChoose("v2", len(variants))])
	a1, w1 := vActionOf(t, 9, d1)
	a2, w2 := vActionOf(t, 10, d2)
	a3, _ := vActionOf(t, 11, d1)
	check(d1, a1, w1)
	check(d2, a2, w2)
	vAssert(a3 == a1, "C20/normalisation-selection-depends-on-history")
}

// ---- C15: ID resolution of users and of groups do not leak into each other --------------------

func init() { vEntries["VH_ResolveIsolation"] = VH_ResolveIsolation }

// VH_ResolveIsolation: uid and gid carry the same numbers with different names. Whatever was
// resolved or hard-coded before (users first or groups first, another event in between), a uid gets
// the user's name and a gid the group's name; separately constructed caches share nothing.
func VH_ResolveIsolation() {
	vInstallTableImage()
	line := "1300|arch=c000003e syscall=2 success=yes exit=0 a0=1 items=0 ppid=1 pid=2 auid=1000 uid=1000 gid=1000 euid=33 egid=33 suid=33 sgid=1000 ses=3 comm=\"x\" exe=\"/bin/x\" key=(null)"
	e, _ := CoalesceMessages(vParseGroup([]string{line}, "91"))
	vAssert(e != nil, "C15/group-does-not-parse")
	if e == nil {
		return
	}
	check := func(ev *Event, label string) {
		want := map[string]string{"auid": "alice", "uid": "alice", "gid": "staff", "euid": "www-data", "egid": "www", "suid": "www-data", "sgid": "staff"}
		ks := make([]string, 0, len(want))
		for k := range want {
			ks = append(ks, k)
		}
		sort.Strings(ks)
		for _, k := range ks {
			if _, has := ev.User.IDs[k]; has {
				vAssert(ev.User.Names[k] == want[k], label)
			}
		}
	}
	if vParam("mode", 0) == 0 {
		// the package-level caches, filled through the exported Hardcode* functions, in either order
		us := []user.User{{Uid: "1000", Username: "alice"}, {Uid: "33", Username: "www-data"}}
		gs := []user.Group{{Gid: "1000", Name: "staff"}, {Gid: "33", Name: "www"}}
		if vChoose("order", 2) == 0 {
			HardcodeUsers(us...)
			HardcodeGroups(gs...)
		} else {
			HardcodeGroups(gs...)
			HardcodeUsers(us...)
		}
		ResolveIDs(e)
		check(e, "C15/user-and-group-names-mixed-up")
		return
	}
	// explicit caches against the stub database; optionally another event resolved first, or the
	// same numbers looked up first in a pair of caches that has nothing to do with ours
	users, groups := NewUserCache(1000000000*60), NewGroupCache(1000000000*60)
	switch vChoose("before", 4) {
	case 1:
		groups.LookupID("1000")
		users.LookupID("33")
	case 2:
		users.LookupID("1000")
		groups.LookupID("33")
	case 3:
		u2, g2 := NewUserCache(1000000000*60), NewGroupCache(1000000000*60)
		g2.LookupID("1000")
		u2.LookupID("1000")
		g2.LookupID("33")
	}
	ResolveIDsFromCaches(e, users, groups)
	check(e, "C15/user-and-group-names-mixed-up")
}

// ---- C15: groups in which one record cannot be decoded ------------------------------------------

func init() { vEntries["VH_CoalesceBroken"] = VH_CoalesceBroken }

// VH_CoalesceBroken: any one record of a group (the SYSCALL record included) is replaced by a record
// of the same type whose Data() fails, or by one with no fields at all: CoalesceMessages returns
// (event, nil) or (nil, error), never panics; messages are left as they were.
func VH_CoalesceBroken() {
	vInstallTableImage()
	gi := vChoose("group", len(vGroups))
	msgs := vParseGroup(vGroups[gi], "77")
	vAssert(msgs != nil, "C15/group-does-not-parse")
	if msgs == nil {
		return
	}
	// independence: what another, well-formed group coalesces to is the same before and after the
	// broken group was handled (both times parsed afresh from the same text)
	other := vGroups[(gi+1)%len(vGroups)]
	refEv, _ := CoalesceMessages(vParseGroup(other, "78"))
	ref := vEventDigest(refEv)
	defer func() {
		om := vParseGroup(other, "78")
		againEv, _ := CoalesceMessages(om)
		vAssert(vEventDigest(againEv) == ref, "C15/outcome-for-other-messages-depends-on-what-was-coalesced-before")
		for _, m := range om {
			d, _ := m.Data()
			_, leaked := d["zzleak"]
			vAssert(!leaked, "C15/outcome-for-other-messages-depends-on-what-was-coalesced-before")
		}
	}()
	i := vChoose("broken", len(msgs))
	switch vChoose("how", 3) {
	case 0:
		msgs[i] = auparse.VNewMessage(msgs[i].RecordType, 77, 1490137971, nil, nil, errors.New("broken record"))
	case 1:
		msgs[i] = auparse.VNewMessage(msgs[i].RecordType, 77, 1490137971, map[string]string{}, nil, nil)
	case 2:
		if m, err := auparse.Parse(msgs[i].RecordType, "audit(1490137971.011:77): arch=zz syscall=x a0= saddr=0 argc=z mode=9 zzleak=1 \x01"); err == nil {
			msgs[i] = m
		}
	}
	// a second broken record somewhere else
	if j := vChoose("broken2", len(msgs)+1); j < len(msgs) && j != i {
		msgs[j] = auparse.VNewMessage(msgs[j].RecordType, 77, 1490137971, nil, nil, errors.New("broken record"))
	}
	ev, err := CoalesceMessages(msgs)
	vAssert((err != nil) == (ev == nil), "C15/error-and-event-disagree")
	d1 := vEventDigest(ev)
	if ev != nil {
		ResolveIDsFromCaches(ev, NewUserCache(1000000000*60), NewGroupCache(1000000000*60))
	}
	ev2, err2 := CoalesceMessages(msgs)
	vAssert((err == nil) == (err2 == nil) && vEventDigest(ev2) == d1, "C15/second-coalesce-gives-a-different-event")
}
