// Environment stubs consulted by the engine (never called natively): the answers mirror what the
// real file system / user database of any Linux box says for the few names the harnesses use.

package aucoalesce

import "strings"

// vStat: 0 = does not exist, 1 = file, 2 = directory.
func vStat(path string) int {
	switch path {
	case "/", "/etc", "/proc":
		return 2
	case "/etc/passwd", "/etc/group":
		return 1
	}
	if strings.HasPrefix(path, "/zzverif") {
		return 0 // harness paths are chosen not to exist
	}
	return 0
}

// vUserLookup: a small user/group database in which user and group numbers coincide but the
// names do not (uid 1000 alice / gid 1000 staff, uid 33 www-data / gid 33 www), plus root.
func vUserLookup(name string, byID, group bool) (string, string, bool) {
	type ent struct{ id, user, grp string }
	for _, e := range []ent{{"0", "root", "root"}, {"1000", "alice", "staff"}, {"33", "www-data", "www"}} {
		n := e.user
		if group {
			n = e.grp
		}
		if (byID && name == e.id) || (!byID && name == n) {
			return e.id, n, true
		}
	}
	return "", "", false
}
