// Environment stubs consulted by the engine (never called natively): the answers mirror what the
// real file system / user database of any Linux box says for the few names the harnesses use.

package aucoalesce

import "strings"

// vStat: 0 = does not exist, 1 = file, 2 = directory.
func vStat(path string) int {
	switch path {
	case "/", "/etc", "/proc":
		return 2
	case "/etc/passwd", "/etc/group":
		return 1
	}
	if strings.HasPrefix(path, "/zzverif") {
		return 0 // harness paths are chosen not to exist
	}
	return 0
}

// vUserLookup knows root only.
func vUserLookup(name string, byID, group bool) (string, string, bool) {
	if (!byID && name == "root") || (byID && name == "0") {
		return "0", "root", true
	}
	return "", "", false
}
