// C13 (rule part): Build and ToCommandLine never panic, never work or allocate in proportion to
// numbers found in the input, and ToCommandLine only accepts structurally valid rules.

package rule

func init() {
	vEntries["VH_DecodeHostile"] = VH_DecodeHostile
	vEntries["VH_DecodeShort"] = VH_DecodeShort
	vEntries["VH_BuildHostile"] = VH_BuildHostile
}

func vLE32(b []byte, off int) uint32 {
	return uint32(b[off]) | uint32(b[off+1])<<8 | uint32(b[off+2])<<16 | uint32(b[off+3])<<24
}

func vSetLE32(b []byte, off int, v uint32) {
	b[off], b[off+1], b[off+2], b[off+3] = byte(v), byte(v>>8), byte(v>>16), byte(v>>24)
}

// UAPI layout of struct audit_rule_data
const (
	vOffFlags      = 0
	vOffAction     = 4
	vOffFieldCount = 8
	vOffMask       = 12
	vOffFields     = 268
	vOffValues     = 524
	vOffFieldFlags = 780
	vOffBufLen     = 1036
	vOffBuf        = 1040
)

var vBaseRules = []Rule{
	&FileWatchRule{Type: FileWatchRuleType, Path: "/zzverif/w", Permissions: []AccessType{WriteAccessType, AttributeChangeAccessType}, Keys: []string{"k1"}},
	&SyscallRule{Type: AppendSyscallRuleType, List: "exit", Action: "always",
		Filters: []FilterSpec{{Type: ValueFilterType, LHS: "arch", Comparator: "=", RHS: "b64"}, {Type: ValueFilterType, LHS: "path", Comparator: "=", RHS: "/a/b"},
			{Type: ValueFilterType, LHS: "exe", Comparator: "!=", RHS: "/bin/x"}, {Type: ValueFilterType, LHS: "auid", Comparator: ">=", RHS: "1000"}},
		Syscalls: []string{"open", "openat"}, Keys: []string{"ka", "kb"}},
	&SyscallRule{Type: AppendSyscallRuleType, List: "exit", Action: "never", Syscalls: []string{"all"},
		Filters: []FilterSpec{{Type: InterFieldFilterType, LHS: "auid", Comparator: "!=", RHS: "obj_uid"}, {Type: ValueFilterType, LHS: "exit", Comparator: "=", RHS: "-EPERM"}}},
	&SyscallRule{Type: AppendSyscallRuleType, List: "user", Action: "always", Filters: []FilterSpec{{Type: ValueFilterType, LHS: "msgtype", Comparator: "=", RHS: "USER_LOGIN"}, {Type: ValueFilterType, LHS: "uid", Comparator: "=", RHS: "0"}}},
}

func vRule64Fields() Rule {
	r := &SyscallRule{Type: AppendSyscallRuleType, List: "exit", Action: "always", Syscalls: []string{"all"}}
	for i := 0; i < 64; i++ {
		r.Filters = append(r.Filters, FilterSpec{Type: ValueFilterType, LHS: "pid", Comparator: "!=", RHS: "7"})
	}
	return r
}

// vStructurallyValid: field count within 64 and the string lengths within the buffer.
func vStructurallyValid(b []byte) bool {
	if len(b) < vOffBuf {
		return false
	}
	fc := vLE32(b, vOffFieldCount)
	buflen := vLE32(b, vOffBufLen)
	ok := vAnd(fc <= 64, uint64(buflen) <= uint64(len(b)-vOffBuf))
	var sum uint64
	for i := 0; i < 64; i++ {
		f := vLE32(b, vOffFields+4*i)
		isStr := false
		for _, sf := range []field{objectUserField, objectRoleField, objectTypeField, objectLevelLowField, objectLevelHighField, pathField, dirField,
			subjectUserField, subjectRoleField, subjectTypeField, subjectSensitivityField, subjectClearanceField, keyField, exeField} {
			isStr = vOr(isStr, f == uint32(sf))
		}
		used := vAnd(uint32(i) < fc, isStr)
		sum += vIf(used, uint64(vLE32(b, vOffValues+4*i)), 0)
	}
	return vAnd(ok, sum <= uint64(buflen))
}

// VH_DecodeHostile: a valid rule with one or two 32-bit header words replaced by arbitrary values.
func VH_DecodeHostile() {
	var base Rule
	bi := vParam("base", 0)
	if bi == 4 {
		base = vRule64Fields()
	} else {
		base = vBaseRules[bi]
	}
	w, err := Build(base)
	vAssert(err == nil, "C13/base-rule-rejected")
	if err != nil {
		return
	}
	b := append([]byte(nil), w...)
	words := []int{vOffFlags, vOffAction, vOffFieldCount, vOffBufLen, vOffMask, vOffMask + 4*63,
		vOffFields, vOffFields + 4, vOffFields + 4*63, vOffValues, vOffValues + 4, vOffValues + 8, vOffValues + 4*63,
		vOffFieldFlags, vOffFieldFlags + 4, vOffFieldFlags + 4*63}
	k1 := vParam("word1", -1)
	if k1 < 0 {
		k1 = vChoose("word1", len(words))
	}
	set := func(off int, name string) {
		v := vU32(name)
		if off >= vOffMask && off < vOffFields {
			// every mask bit is a separate syscall in the decoded list (one path per bit pattern):
			// five bits of the word are symbolic, the others keep the base rule's value
			v = vLE32(b, off) ^ (v & 0x8000000F)
		}
		if off == vOffFieldCount && vParam("fullcount", 0) == 0 {
			// the decoder sizes four slices by this word, and slice lengths are concrete in the engine
			// (one path per value): boundary regions only, as the property's quantifier says
			vAssume(vOr(vOr(v <= 70, vAnd(v >= 4090, v <= 4100)), vOr(vAnd(v >= 0x7FFFFFFE, v <= 0x80000002), v >= 0xFFFFFFF0)))
		}
		vSetLE32(b, off, v)
	}
	set(words[k1], "val1")
	if k2 := vParam("word2", -1); k2 >= 0 {
		set(words[k2], "val2")
	}
	txt, err := ToCommandLine(WireFormat(b), false)
	if err == nil {
		vAssert(vStructurallyValid(b), "C13/accepted-structurally-invalid-rule")
	} else {
		vAssert(txt == "", "C13/text-returned-with-error")
	}
}

// VH_DecodeShort: fully symbolic buffers of boundary lengths.
func VH_DecodeShort() {
	lens := []int{0, 1, 4, 1039, 1040, 1041, 1044}
	n := lens[vChoose("len", len(lens))]
	b := make([]byte, n)
	// list, action, field count and buffer length are symbolic; the rest stays zero
	for _, off := range []int{vOffFlags, vOffAction, vOffFieldCount, vOffBufLen} {
		if off+4 <= n {
			v := vU32("w")
			switch off {
			case vOffMask:
				v &= 3 // each mask bit is one more decoded syscall (a path per pattern)
			case vOffFieldCount:
				vAssume(vOr(v <= 3, vOr(vAnd(v >= 63, v <= 66), v >= 0xFFFFFFFE)))
			}
			vSetLE32(b, off, v)
		}
	}
	for i := vOffBuf; i < n; i++ {
		b[i] = vU8("tail")
	}
	_, err := ToCommandLine(WireFormat(b), false)
	if err == nil {
		vAssert(vStructurallyValid(b), "C13/accepted-structurally-invalid-rule")
	}
	if n < vOffBuf {
		vAssert(err != nil, "C13/short-buffer-accepted")
	}
}

type vOddRule struct{}

func (vOddRule) TypeOf() Type { return 99 }

// VH_BuildHostile: Build on arbitrary Rule values.
func VH_BuildHostile() {
	var r Rule
	switch vParam("case", 0) {
	case 0: // syscall numbers as digit strings, across and beyond 0..2047
		n := vLen("digits", 5)
		d := vStr("sysno", n)
		for i := 0; i < n; i++ {
			vAssume(vAnd(d[i] >= '0', d[i] <= '9'))
		}
		if vChoose("neg", 2) == 1 {
			d = "-" + d
		}
		r = &SyscallRule{Type: AppendSyscallRuleType, List: "exit", Action: "always", Syscalls: []string{d}}
	case 1: // 65 filters
		sr := &SyscallRule{Type: AppendSyscallRuleType, List: "exit", Action: "always"}
		for i := 0; i < vParam("filters", 65); i++ {
			sr.Filters = append(sr.Filters, FilterSpec{Type: ValueFilterType, LHS: "pid", Comparator: "=", RHS: "1"})
		}
		sr.Keys = []string{"k"}
		switch vChoose("mix", 3) {
		case 1: // the field over the limit is an inter-field comparison
			sr.Filters[len(sr.Filters)-1] = FilterSpec{Type: InterFieldFilterType, LHS: "auid", Comparator: "!=", RHS: "uid"}
			sr.Keys = nil
		case 2: // comparisons only
			for i := range sr.Filters {
				sr.Filters[i] = FilterSpec{Type: InterFieldFilterType, LHS: "uid", Comparator: "=", RHS: "euid"}
			}
			sr.Keys = nil
		}
		r = sr
	case 2: // garbage list / action / field / operator / value strings
		g := func(name string) string {
			s := vStr(name, vLen(name+"len", 2))
			for i := 0; i < len(s); i++ {
				vAssume(s[i] < 0x80)
			}
			return s
		}
		which := vChoose("which", 5)
		sr := &SyscallRule{Type: AppendSyscallRuleType, List: "exit", Action: "always",
			Filters: []FilterSpec{{Type: ValueFilterType, LHS: "pid", Comparator: "=", RHS: "1"}}}
		switch which {
		case 0:
			sr.List = g("list")
		case 1:
			sr.Action = g("action")
		case 2:
			sr.Filters[0].LHS = g("lhs")
		case 3:
			sr.Filters[0].Comparator = g("op")
		case 4:
			sr.Filters[0].RHS = g("rhs")
		}
		r = sr
	case 3: // nil and odd rules
		switch vChoose("odd", 5) {
		case 0:
			r = nil
		case 1:
			r = (*SyscallRule)(nil)
		case 2:
			r = (*FileWatchRule)(nil)
		case 3:
			r = vOddRule{}
		case 4:
			r = &DeleteAllRule{Type: DeleteAllRuleType}
		}
	case 4: // filter type outside the enumeration, symbolic
		r = &SyscallRule{Type: AppendSyscallRuleType, List: "exit", Action: "always",
			Filters: []FilterSpec{{Type: FilterType(vU8("ftype")), LHS: "pid", Comparator: "=", RHS: "1"}}}
	case 5: // very large syscall numbers
		r = &SyscallRule{Type: AppendSyscallRuleType, List: "exit", Action: "always", Syscalls: []string{[]string{"2047", "2048", "2049", "2147483647", "2147483648", "4294967295", "4294967296", "-1", "99999999999999999999"}[vChoose("big", 9)]}}
	}
	w, err := Build(r)
	if err == nil {
		vAssert(len(w) >= vOffBuf && len(w)%4 == 0, "C13/built-rule-malformed")
	} else {
		vAssert(w == nil, "C13/data-returned-with-error")
	}
}

func init() { vEntries["VH_DecodeFieldValue"] = VH_DecodeFieldValue }

// VH_DecodeFieldValue: a one-filter rule whose field code is any UAPI field (or an unknown code),
// whose operator word is any valid operator and whose value word is any 32-bit number, decoded with
// and without name resolution: text or error, never a panic.
func VH_DecodeFieldValue() {
	w, err := Build(&SyscallRule{Type: AppendSyscallRuleType, List: "exit", Action: "always", Filters: []FilterSpec{{Type: ValueFilterType, LHS: "pid", Comparator: "=", RHS: "1"}}})
	vAssert(err == nil, "C13/base-rule-rejected")
	if err != nil {
		return
	}
	b := append([]byte(nil), w...)
	names := make([]string, 0, len(vUAPIFields))
	for k := range vUAPIFields {
		names = append(names, k)
	}
	for i := 1; i < len(names); i++ {
		for j := i; j > 0 && names[j] < names[j-1]; j-- {
			names[j], names[j-1] = names[j-1], names[j]
		}
	}
	fi := vChoose("field", len(names)+1)
	code := uint32(250) // no such field
	if fi < len(names) {
		code = vUAPIFields[names[fi]]
	}
	vSetLE32(b, vOffFields, code)
	vSetLE32(b, vOffValues, vU32("value"))
	opNames := []string{"=", "!=", "<", ">", "<=", ">=", "&", "&="}
	vSetLE32(b, vOffFieldFlags, vUAPIOps[opNames[vChoose("op", len(opNames))]])
	resolve := vParam("resolve", 0) != 0
	txt, err := ToCommandLine(WireFormat(b), resolve)
	if err != nil {
		vAssert(txt == "", "C13/text-returned-with-error")
	} else {
		vReach("C13/field-value-decoded")
	}
}


func init() { vEntries["VH_BuildFieldValues"] = VH_BuildFieldValues }

// VH_BuildFieldValues: every field name of the table (and an unknown one) with right-hand sides
// that are empty, blank, signs only, half a number, far too large, non-ASCII: data or error.
func VH_BuildFieldValues() {
	names := make([]string, 0, len(fieldsTable)+1)
	for k := range fieldsTable {
		names = append(names, k)
	}
	for i := 1; i < len(names); i++ {
		for j := i; j > 0 && names[j] < names[j-1]; j-- {
			names[j], names[j-1] = names[j-1], names[j]
		}
	}
	names = append(names, "nosuchfield")
	name := names[vChoose("field", len(names))]
	rhs := []string{"", " ", "-", "+", "0x", "-0x", "-0", "+1", "99999999999999999999", "-99999999999999999999", "a b", "\x00", "\xc3\xa9", "=", "-E", "E", "0x100000000", "1e3", ",", "unset", "b6", "rwxaq", "-1-1"}[vChoose("rhs", 23)]
	op := []string{"=", "!=", "<", "&="}[vChoose("op", 4)]
	list := []string{"exit", "user", "task", "exclude"}[vChoose("list", 4)]
	w, err := Build(&SyscallRule{Type: AppendSyscallRuleType, List: list, Action: "always", Filters: []FilterSpec{{Type: ValueFilterType, LHS: name, Comparator: op, RHS: rhs}}})
	if err == nil {
		vReach("C13/hostile-value-accepted")
		_, _ = ToCommandLine(w, false)
	}
}
