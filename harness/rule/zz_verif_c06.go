// C06: built rules are byte-exact struct audit_rule_data for what was asked. The oracle is an
// independent little-endian decoder at the UAPI offsets with the constants of zz_verif_uapi.go.

package rule

import "strconv"

func init() {
	vEntries["VH_EncodeFilter"] = VH_EncodeFilter
	vEntries["VH_EncodeMask"] = VH_EncodeMask
	vEntries["VH_EncodeMany"] = VH_EncodeMany
	vEntries["VH_EncodeWatch"] = VH_EncodeWatch
}

var vOpNames = []string{"=", "!=", "<", ">", "<=", ">=", "&", "&="}
var vListNames = []string{"exit", "task", "user", "exclude"}
var vActionNames = []string{"always", "never"}

func vDigitsNZ(name string, n int) string {
	s := vStr(name, n)
	for i := 0; i < n; i++ {
		vAssume(vAnd(s[i] >= '0', s[i] <= '9'))
	}
	if n > 1 {
		vAssume(s[0] != '0') // a leading zero would mean octal
	}
	return s
}

func vHornerBase(d string, base uint64) uint64 {
	var v uint64
	for i := 0; i < len(d); i++ {
		c := d[i]
		dig := vIf(c <= '9', uint64(c-'0'), uint64((c|0x20)-'a'+10))
		v = v*base + dig
	}
	return v
}

// vNumber returns the text of a 32-bit number in one of the accepted spellings and its value.
func vNumber(name string) (string, uint32) {
	nf := vParam("numforms", 4)
	switch vChoose(name+"form", nf) {
	case 0: // decimal
		d := vDigitsNZ(name, vParam("digits", 10))
		v := vHornerBase(d, 10)
		vAssume(v < 1<<32)
		return d, uint32(v)
	case 1: // negative decimal: stored as two's complement
		d := vDigitsNZ(name, vParam("negdigits", 9))
		v := vHornerBase(d, 10)
		vAssume(vAnd(v <= 1<<31, v > 0))
		return "-" + d, uint32(-int64(v))
	case 2: // hexadecimal
		h := vStr(name, vParam("hexdigits", 8))
		for i := 0; i < len(h); i++ {
			c := h[i]
			vAssume(vOr(vAnd(c >= '0', c <= '9'), vOr(vAnd(c >= 'a', c <= 'f'), vAnd(c >= 'A', c <= 'F'))))
		}
		return "0x" + h, uint32(vHornerBase(h, 16))
	}
	// octal
	o := vStr(name, vParam("octdigits", 10))
	for i := 0; i < len(o); i++ {
		vAssume(vAnd(o[i] >= '0', o[i] <= '7'))
	}
	v := vHornerBase(o, 8)
	vAssume(v < 1<<32)
	return "0" + o, uint32(v)
}

type vExpect struct {
	field uint32
	op    uint32
	value uint32
	str   string // for string fields: the text that must be in the buffer
	isStr bool
}

var vStringFields = map[string]bool{"obj_user": true, "obj_role": true, "obj_type": true, "obj_lev_low": true, "obj_lev_high": true, "path": true, "dir": true,
	"subj_user": true, "subj_role": true, "subj_type": true, "subj_sen": true, "subj_clr": true, "key": true, "exe": true}

var vFiletypes = map[string]uint32{"file": 0100000, "dir": 0040000, "socket": 0140000, "symlink": 0120000, "char": 0020000, "block": 0060000, "fifo": 0010000}
var vArchCodes = map[string]uint32{"b64": 0xc000003e, "b32": 0x40000003, "x86_64": 0xc000003e, "i386": 0x40000003, "aarch64": 0xc00000b7, "arm": 0x40000028, "ppc64le": 0xc0000015, "s390x": 0x80000016}
var vErrnoSample = map[string]int32{"EPERM": 1, "ENOENT": 2, "EACCES": 13, "EEXIST": 17, "EINVAL": 22, "ENOSYS": 38, "EAGAIN": 11, "EWOULDBLOCK": 11}
var vMsgTypes = map[string]uint32{"USER_LOGIN": 1112, "SYSCALL": 1300, "AVC": 1400, "USER_AUTH": 1100, "CONFIG_CHANGE": 1305}

func vSortedKeys(m map[string]uint32) []string {
	var ks []string
	for k := range m {
		ks = append(ks, k)
	}
	for i := 1; i < len(ks); i++ {
		for j := i; j > 0 && ks[j] < ks[j-1]; j-- {
			ks[j], ks[j-1] = ks[j-1], ks[j]
		}
	}
	return ks
}

// vFilterFor builds one -F filter for the given field name and the expectation for it.
func vFilterFor(name string, idx int) (FilterSpec, vExpect) {
	opi := vChoose("op", len(vOpNames))
	op := vOpNames[opi]
	e := vExpect{field: vUAPIFields[name], op: vUAPIOps[op]}
	var rhs string
	tag := "v" + strconv.Itoa(idx)
	switch {
	case vStringFields[name]:
		rhs = vStr(tag, vLen(tag+"len", vParam("strmax", 3)))
		e.isStr, e.str, e.value = true, rhs, uint32(len(rhs))
	case name == "uid" || name == "euid" || name == "suid" || name == "fsuid" || name == "auid" || name == "obj_uid":
		switch vChoose(tag+"uidform", 4) {
		case 0:
			rhs = vDigitsNZ(tag, vParam("digits", 10))
			v := vHornerBase(rhs, 10)
			vAssume(v < 1<<32)
			e.value = uint32(v)
		case 1:
			rhs, e.value = "-1", 4294967295
		case 2:
			rhs, e.value = "unset", 4294967295
		case 3:
			rhs, e.value = "root", 0 // the stubbed (and every real) user database knows root as 0
		}
	case name == "gid" || name == "egid" || name == "sgid" || name == "fsgid" || name == "obj_gid":
		if vChoose(tag+"gidform", 2) == 0 {
			rhs = vDigitsNZ(tag, vParam("digits", 10))
			v := vHornerBase(rhs, 10)
			vAssume(v < 1<<32)
			e.value = uint32(v)
		} else {
			rhs, e.value = "root", 0
		}
	case name == "exit":
		switch vChoose(tag+"exitform", 3) {
		case 0:
			var v uint32
			rhs, v = vNumber(tag)
			e.value = v
		case 1:
			ks := []string{"EACCES", "EAGAIN", "EEXIST", "EINVAL", "ENOENT", "ENOSYS", "EPERM", "EWOULDBLOCK"}
			k := ks[vChoose(tag+"errno", len(ks))]
			rhs, e.value = k, uint32(vErrnoSample[k])
		case 2:
			ks := []string{"EACCES", "EAGAIN", "EEXIST", "EINVAL", "ENOENT", "ENOSYS", "EPERM", "EWOULDBLOCK"}
			k := ks[vChoose(tag+"errno", len(ks))]
			rhs, e.value = "-"+k, uint32(-vErrnoSample[k])
		}
	case name == "msgtype":
		if vChoose(tag+"msgform", 2) == 0 {
			d := vDigitsNZ(tag, vParam("digits", 10))
			v := vHornerBase(d, 10)
			vAssume(v < 1<<32)
			rhs, e.value = d, uint32(v)
		} else {
			ks := vSortedKeys(vMsgTypes)
			k := ks[vChoose(tag+"msgname", len(ks))]
			rhs, e.value = k, vMsgTypes[k]
		}
	case name == "arch":
		ks := vSortedKeys(vArchCodes)
		k := ks[vChoose(tag+"arch", len(ks))]
		rhs, e.value = k, vArchCodes[k]
	case name == "perm":
		// 0..3 letters in any order, repeats allowed ("rr", "war"): the value is the union of their bits
		for i, n := 0, vChoose(tag+"permlen", 4); i < n; i++ {
			c := []string{"r", "w", "x", "a"}[vChoose(tag+"permletter", 4)]
			rhs += c
			e.value |= vUAPIPerms[c]
		}
	case name == "filetype":
		ks := vSortedKeys(vFiletypes)
		k := ks[vChoose(tag+"ft", len(ks))]
		rhs, e.value = k, vFiletypes[k]
	case name == "saddr_fam":
		rhs = []string{"2", "10"}[vChoose(tag+"fam", 2)]
		e.value = map[string]uint32{"2": 2, "10": 10}[rhs]
	default:
		rhs, e.value = vNumber(tag)
	}
	return FilterSpec{Type: ValueFilterType, LHS: name, Comparator: op, RHS: rhs}, e
}

// vDecodeAndCheck is the oracle: w must be exactly the audit_rule_data for (list, action, exps, mask).
func vDecodeAndCheck(w []byte, list, action string, exps []vExpect, maskAll bool, sysnums []uint32) {
	vAssert(len(w) >= vUAPI_OFF_buf, "C06/shorter-than-header")
	if len(w) < vUAPI_OFF_buf {
		return
	}
	vAssert(vLE32(w, vUAPI_OFF_flags) == vUAPILists[list], "C06/list-code")
	vAssert(vLE32(w, vUAPI_OFF_action) == vUAPIActions[action], "C06/action-code")
	vAssert(vLE32(w, vUAPI_OFF_field_count) == uint32(len(exps)), "C06/field-count")
	pos := 0
	for i, e := range exps {
		vAssert(vLE32(w, vUAPI_OFF_fields+4*i) == e.field, "C06/field-code")
		vAssert(vLE32(w, vUAPI_OFF_fieldflags+4*i) == e.op, "C06/operator-code")
		vAssert(vLE32(w, vUAPI_OFF_values+4*i) == e.value, "C06/value")
		if e.isStr {
			ok := vUAPI_OFF_buf+pos+len(e.str) <= len(w)
			vAssert(ok, "C06/string-outside-buffer")
			if ok {
				for k := 0; k < len(e.str); k++ {
					vAssert(w[vUAPI_OFF_buf+pos+k] == e.str[k], "C06/strings-not-back-to-back-in-order")
				}
			}
			pos += len(e.str)
		}
	}
	for i := len(exps); i < vUAPI_AUDIT_MAX_FIELDS; i++ {
		vAssert(vLE32(w, vUAPI_OFF_fields+4*i) == 0 && vLE32(w, vUAPI_OFF_values+4*i) == 0 && vLE32(w, vUAPI_OFF_fieldflags+4*i) == 0, "C06/unused-field-slot-not-zero")
	}
	vAssert(vLE32(w, vUAPI_OFF_buflen) == uint32(pos), "C06/buflen")
	total := vUAPI_OFF_buf + pos
	total += (4 - total%4) % 4
	vAssert(len(w) == total, "C06/total-length-or-padding")
	for i := vUAPI_OFF_buf + pos; i < len(w); i++ {
		vAssert(w[i] == 0, "C06/padding-not-zero")
	}
	// syscall mask
	for word := 0; word < vUAPI_AUDIT_BITMASK_SIZE; word++ {
		got := vLE32(w, vUAPI_OFF_mask+4*word)
		if maskAll {
			if word < vUAPI_AUDIT_BITMASK_SIZE-1 {
				vAssert(got == 0xFFFFFFFF, "C06/mask-all-syscalls")
			} else {
				// the top 16 bits of the last word are the kernel's syscall-class bits (cleared on load)
				vAssert(got&0xFFFF == 0xFFFF, "C06/mask-all-syscalls")
			}
			continue
		}
		var want uint32
		for _, n := range sysnums {
			want |= uint32(vIf(n/32 == uint32(word), uint64(uint32(1)<<(n%32)), 0))
		}
		vAssert(got == want, "C06/mask-bits")
	}
}

var vFieldNames = []string{"a0", "a1", "a2", "a3", "arch", "auid", "devmajor", "devminor", "dir", "egid", "euid", "exe", "exit", "filetype", "fsgid", "fsuid", "gid", "inode",
	"msgtype", "obj_gid", "obj_lev_high", "obj_lev_low", "obj_role", "obj_type", "obj_uid", "obj_user", "path", "perm", "pers", "pid", "ppid", "saddr_fam", "sgid",
	"subj_clr", "subj_role", "subj_sen", "subj_type", "subj_user", "success", "suid", "uid"}

// VH_EncodeFilter: one or two filters on a chosen field, every list x action, 0..2 keys.
func VH_EncodeFilter() {
	name := vFieldNames[vParam("field", 0)]
	list := vListNames[vChoose("list", len(vListNames))]
	if l := vParam("list", -1); l >= 0 {
		list = vListNames[l]
	}
	action := vActionNames[vChoose("action", 2)]
	r := &SyscallRule{Type: AppendSyscallRuleType, List: list, Action: action}
	var exps []vExpect
	f, e := vFilterFor(name, 0)
	r.Filters, exps = append(r.Filters, f), append(exps, e)
	if second := vParam("second", -1); second >= 0 {
		f, e := vFilterFor(vFieldNames[second], 1)
		r.Filters, exps = append(r.Filters, f), append(exps, e)
	}
	nk := vChoose("keys", vParam("maxkeys", 2)+1)
	var joined string
	for i := 0; i < nk; i++ {
		k := vStr("key", vLen("keylen", 2))
		for j := 0; j < len(k); j++ {
			vAssume(k[j] != 1) // the separator itself cannot be part of a key
		}
		r.Keys = append(r.Keys, k)
		if i > 0 {
			joined += "\x01"
		}
		joined += k
	}
	if nk > 0 {
		exps = append(exps, vExpect{field: vUAPIFields["key"], op: vUAPIOps["="], value: uint32(len(joined)), str: joined, isStr: true})
	}
	w, err := Build(r)
	if err != nil {
		vReach("C06/rejected")
		return
	}
	vReach("C06/accepted")
	vDecodeAndCheck(w, list, action, exps, true, nil)
}

// VH_EncodeMask: syscall sets by number (symbolic digits) and by name.
func VH_EncodeMask() {
	r := &SyscallRule{Type: AppendSyscallRuleType, List: "exit", Action: "always"}
	var nums []uint32
	all := false
	n := vChoose("count", vParam("maxsys", 2)+1)
	for i := 0; i < n; i++ {
		switch vChoose("kind", 3) {
		case 0:
			d := vDigitsNZ("sysno", vLen("sysdigits", 3)+1)
			v := vHornerBase(d, 10)
			vAssume(v < 2048)
			r.Syscalls = append(r.Syscalls, d)
			nums = append(nums, uint32(v))
		case 1:
			names := map[string]uint32{"read": 0, "open": 2, "execve": 59, "openat": 257, "mseal": 462}
			ks := vSortedKeys(names)
			k := ks[vChoose("sysname", len(ks))]
			r.Syscalls = append(r.Syscalls, k)
			nums = append(nums, names[k])
		case 2:
			r.Syscalls = append(r.Syscalls, "all")
			all = true
			nums = nil
		}
		if all && r.Syscalls[len(r.Syscalls)-1] != "all" {
			all = false // a later syscall switches "all" off again; only it (and later ones) count
			nums = nums[len(nums)-1:]
		}
	}
	w, err := Build(r)
	if err != nil {
		vReach("C06/rejected")
		return
	}
	vReach("C06/accepted")
	vDecodeAndCheck(w, "exit", "always", nil, n == 0 || all, nums)
}

// VH_EncodeMany: many filters (0, 1, 2, 63, 64, 65) plus keys.
func VH_EncodeMany() {
	nf := vParam("filters", 63)
	r := &SyscallRule{Type: AppendSyscallRuleType, List: "exit", Action: "always"}
	var exps []vExpect
	for i := 0; i < nf; i++ {
		v := vU8("pidlow")
		r.Filters = append(r.Filters, FilterSpec{Type: ValueFilterType, LHS: "pid", Comparator: "!=", RHS: strconv.Itoa(1000 + int(v))})
		exps = append(exps, vExpect{field: vUAPIFields["pid"], op: vUAPIOps["!="], value: 1000 + uint32(v)})
	}
	if vParam("key", 1) != 0 {
		r.Keys = []string{"k"}
		exps = append(exps, vExpect{field: vUAPIFields["key"], op: vUAPIOps["="], value: 1, str: "k", isStr: true})
	}
	w, err := Build(r)
	if len(exps) > vUAPI_AUDIT_MAX_FIELDS {
		vAssert(err != nil, "C06/more-than-64-fields-accepted")
		return
	}
	vAssert(err == nil, "C06/up-to-64-fields-rejected")
	if err == nil {
		vDecodeAndCheck(w, "exit", "always", exps, true, nil)
	}
}

// VH_EncodeWatch: file watches with every permission subset, consistent with the Stat stub.
func VH_EncodeWatch() {
	paths := []string{"/etc/passwd", "/etc", "/zzverif/" + vStr("leaf", vLen("leaflen", 2))}
	pi := vChoose("path", len(paths))
	p := paths[pi]
	if pi == 2 {
		for i := len("/zzverif/"); i < len(p); i++ {
			vAssume(vAnd(p[i] != '/', p[i] != '.')) // filepath.Clean would rewrite such names
			vAssume(p[i] != 0)
		}
		vAssume(len(p) > len("/zzverif/"))
	}
	r := &FileWatchRule{Type: FileWatchRuleType, Path: p}
	var permv uint32
	bits := vChoose("permlen", 4) // 0..3 permissions in any order, repeats allowed
	for i := 0; i < bits; i++ {
		j := vChoose("permletter", 4)
		r.Permissions = append(r.Permissions, []AccessType{ReadAccessType, WriteAccessType, ExecuteAccessType, AttributeChangeAccessType}[j])
		permv |= vUAPIPerms[[]string{"r", "w", "x", "a"}[j]]
	}
	if bits == 0 {
		permv = vUAPIPerms["r"] | vUAPIPerms["w"] | vUAPIPerms["x"] | vUAPIPerms["a"] // no -p means all four
	}
	kind := "path"
	if pi == 1 {
		kind = "dir"
	}
	exps := []vExpect{{field: vUAPIFields[kind], op: vUAPIOps["="], value: uint32(len(p)), str: p, isStr: true},
		{field: vUAPIFields["perm"], op: vUAPIOps["="], value: permv}}
	if vChoose("key", 2) == 1 {
		r.Keys = []string{"wk"}
		exps = append(exps, vExpect{field: vUAPIFields["key"], op: vUAPIOps["="], value: 2, str: "wk", isStr: true})
	}
	w, err := Build(r)
	vAssert(err == nil, "C06/watch-rejected")
	if err == nil {
		vDecodeAndCheck(w, "exit", "always", exps, true, nil)
	}
}

func init() { vEntries["VH_EncodeCompare"] = VH_EncodeCompare }

// VH_EncodeCompare: -C inter-field comparisons carry AUDIT_FIELD_COMPARE and the UAPI pair code.
func VH_EncodeCompare() {
	type pr struct{ a, b string }
	var pairs []pr
	for k := range vUAPICompare {
		pairs = append(pairs, pr{k[0], k[1]})
	}
	for i := 1; i < len(pairs); i++ {
		for j := i; j > 0 && (pairs[j].a+","+pairs[j].b) < (pairs[j-1].a+","+pairs[j-1].b); j-- {
			pairs[j], pairs[j-1] = pairs[j-1], pairs[j]
		}
	}
	vAssert(len(pairs) == 25, "C06/uapi-compare-table-size")
	for _, p := range pairs {
		code := vUAPICompare[[2]string{p.a, p.b}]
		for _, ord := range [][2]string{{p.a, p.b}, {p.b, p.a}} {
			for _, op := range []string{"=", "!="} {
				r := &SyscallRule{Type: AppendSyscallRuleType, List: "exit", Action: "always",
					Filters: []FilterSpec{{Type: InterFieldFilterType, LHS: ord[0], Comparator: op, RHS: ord[1]}}}
				w, err := Build(r)
				vAssert(err == nil, "C06/comparison-rejected")
				if err != nil {
					continue
				}
				vDecodeAndCheck(w, "exit", "always", []vExpect{{field: vUAPIFields["field_compare"], op: vUAPIOps[op], value: code}}, true, nil)
			}
		}
	}
	// what the kernel has no code for must be rejected, not encoded as something else
	for _, bad := range [][3]string{{"uid", "=", "gid"}, {"pid", "=", "ppid"}, {"uid", "=", "uid"}, {"obj_uid", "=", "obj_gid"}} {
		r := &SyscallRule{Type: AppendSyscallRuleType, List: "exit", Action: "always",
			Filters: []FilterSpec{{Type: InterFieldFilterType, LHS: bad[0], Comparator: bad[1], RHS: bad[2]}}}
		_, err := Build(r)
		vAssert(err != nil, "C06/comparison-without-uapi-code-accepted")
	}
}

func init() { vEntries["VH_BuildHistory"] = VH_BuildHistory }

// VH_BuildHistory: what Build returns for a rule does not depend on what was built (or rejected)
// before: good rule, some other rule that Build accepts or rejects at one of its error exits, the
// good rule again: same bytes.
func VH_BuildHistory() {
	goods := []Rule{
		&SyscallRule{Type: AppendSyscallRuleType, List: "exit", Action: "always", Syscalls: []string{"open", "59"},
			Filters: []FilterSpec{{Type: ValueFilterType, LHS: "arch", Comparator: "=", RHS: "b64"}, {Type: ValueFilterType, LHS: "uid", Comparator: "!=", RHS: "0"}, {Type: ValueFilterType, LHS: "exe", Comparator: "=", RHS: "/bin/x"}}, Keys: []string{"k1"}},
		&SyscallRule{Type: AppendSyscallRuleType, List: "user", Action: "never", Filters: []FilterSpec{{Type: ValueFilterType, LHS: "pid", Comparator: ">", RHS: "7"}}},
		&FileWatchRule{Type: FileWatchRuleType, Path: "/etc/passwd", Permissions: []AccessType{WriteAccessType, AttributeChangeAccessType}, Keys: []string{"a", "b"}},
	}
	longKey := make([]byte, 300)
	for i := range longKey {
		longKey[i] = 'k'
	}
	f := func(l, op, r string) FilterSpec { return FilterSpec{Type: ValueFilterType, LHS: l, Comparator: op, RHS: r} }
	others := []Rule{
		// rejected after some of their filters / syscalls / keys were taken in
		&SyscallRule{Type: AppendSyscallRuleType, List: "exit", Action: "always", Syscalls: []string{"open"}, Filters: []FilterSpec{f("uid", "=", "1"), f("nosuchfield", "=", "1")}},
		&SyscallRule{Type: AppendSyscallRuleType, List: "exit", Action: "always", Syscalls: []string{"open", "nosuchsyscall"}, Filters: []FilterSpec{f("gid", "=", "1")}},
		&SyscallRule{Type: AppendSyscallRuleType, List: "exit", Action: "always", Syscalls: []string{"close", "4000"}},
		&SyscallRule{Type: AppendSyscallRuleType, List: "task", Action: "always", Filters: []FilterSpec{f("pid", "=", "1"), f("success", "=", "1")}},
		&SyscallRule{Type: AppendSyscallRuleType, List: "exit", Action: "always", Filters: []FilterSpec{f("path", "=", "/x"), f("pid", "=", "1")}, Keys: []string{string(longKey)}},
		&SyscallRule{Type: AppendSyscallRuleType, List: "exit", Action: "always", Filters: []FilterSpec{f("exe", "=", "/y"), f("uid", "<", "nobody-zz")}},
		&SyscallRule{Type: AppendSyscallRuleType, List: "exit", Action: "sometimes", Filters: []FilterSpec{f("pid", "=", "1")}},
		&FileWatchRule{Type: FileWatchRuleType, Path: "relative/path", Keys: []string{"q"}},
		vRule64Fields(),
		// accepted
		&SyscallRule{Type: AppendSyscallRuleType, List: "exit", Action: "never", Syscalls: []string{"1", "2", "3"}, Filters: []FilterSpec{f("dir", "=", "/etc"), f("perm", "=", "rw")}, Keys: []string{"zz"}},
	}
	g := goods[vChoose("good", len(goods))]
	o := others[vChoose("other", len(others))]
	w1, err1 := Build(g)
	vAssert(err1 == nil, "C06/base-rule-rejected")
	_, errO := Build(o)
	if errO != nil {
		vReach("C06/other-rule-rejected")
	}
	w2, err2 := Build(g)
	vAssert(err2 == nil, "C06/build-depends-on-what-was-built-before")
	same := len(w1) == len(w2)
	for i := 0; same && i < len(w1); i++ {
		if w1[i] != w2[i] {
			same = false
		}
	}
	vAssert(same, "C06/build-depends-on-what-was-built-before")
}
