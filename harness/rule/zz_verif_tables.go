// C20 (rule part): field / operator / comparison tables survive forward -> reverse -> forward.

package rule

import "github.com/elastic/go-libaudit/v2/auparse"

func init() { vEntries["VH_RuleTables"] = VH_RuleTables }

func VH_RuleTables() {
	for name, code := range fieldsTable {
		back, ok := reverseFieldsTable[code]
		vAssert(ok, "C20/field-code-has-no-reverse")
		if ok {
			vAssert(fieldsTable[back] == code, "C20/field-forward-reverse-forward")
		}
		_ = name
	}
	vAssert(len(reverseFieldsTable) == len(fieldsTable) && len(fieldsTable) > 30, "C20/field-name-shares-code")
	for name, code := range operatorsTable {
		back, ok := reverseOperatorsTable[code]
		vAssert(ok && operatorsTable[back] == code, "C20/operator-forward-reverse-forward")
		_ = name
	}
	vAssert(len(reverseOperatorsTable) == len(operatorsTable), "C20/operator-name-shares-code")
	for lhs, tab := range comparisonsTable {
		for rhs, comp := range tab {
			// symmetric
			other, ok := comparisonsTable[rhs][lhs]
			vAssert(ok && other == comp, "C20/comparison-table-not-symmetric")
			pair, ok := reverseComparisonsTable[comp]
			vAssert(ok, "C20/comparison-has-no-reverse")
			if ok {
				vAssert(comparisonsTable[pair[0]][pair[1]] == comp, "C20/comparison-forward-reverse-forward")
			}
		}
	}
	// architectures and syscalls: the reverse tables agree with auparse
	for code, name := range auparse.AuditArchNames {
		back, ok := reverseArch[name]
		vAssert(ok && back == uint32(code), "C20/reverse-arch-disagrees")
	}
	vAssert(len(reverseArch) == len(auparse.AuditArchNames), "C20/reverse-arch-size")
	for arch, table := range auparse.AuditSyscalls {
		rev := reverseSyscall[arch]
		vAssert(len(rev) == len(table), "C20/syscall-not-injective")
		for num, name := range table {
			back, ok := rev[name]
			vAssert(ok && back == num, "C20/syscall-not-injective")
		}
	}
}
