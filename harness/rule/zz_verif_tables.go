// C20 (rule part): field / operator / comparison tables survive forward -> reverse -> forward.

package rule

import "github.com/elastic/go-libaudit/v2/auparse"

func init() { vEntries["VH_RuleTables"] = VH_RuleTables }

func VH_RuleTables() {
	for name, code := range fieldsTable {
		back, ok := reverseFieldsTable[code]
		vAssert(ok, "C20/field-code-has-no-reverse")
		if ok {
			vAssert(fieldsTable[back] == code, "C20/field-forward-reverse-forward")
		}
		_ = name
	}
	vAssert(len(reverseFieldsTable) == len(fieldsTable) && len(fieldsTable) > 30, "C20/field-name-shares-code")
	for name, code := range operatorsTable {
		back, ok := reverseOperatorsTable[code]
		vAssert(ok && operatorsTable[back] == code, "C20/operator-forward-reverse-forward")
		_ = name
	}
	vAssert(len(reverseOperatorsTable) == len(operatorsTable), "C20/operator-name-shares-code")
	for lhs, tab := range comparisonsTable {
		for rhs, comp := range tab {
			// symmetric
			other, ok := comparisonsTable[rhs][lhs]
			vAssert(ok && other == comp, "C20/comparison-table-not-symmetric")
			pair, ok := reverseComparisonsTable[comp]
			vAssert(ok, "C20/comparison-has-no-reverse")
			if ok {
				vAssert(comparisonsTable[pair[0]][pair[1]] == comp, "C20/comparison-forward-reverse-forward")
			}
		}
	}
	// architectures and syscalls: the reverse tables agree with auparse
	for code, name := range auparse.AuditArchNames {
		back, ok := reverseArch[name]
		vAssert(ok && back == uint32(code), "C20/reverse-arch-disagrees")
	}
	vAssert(len(reverseArch) == len(auparse.AuditArchNames), "C20/reverse-arch-size")
	for arch, table := range auparse.AuditSyscalls {
		rev := reverseSyscall[arch]
		vAssert(len(rev) == len(table), "C20/syscall-not-injective")
		for num, name := range table {
			back, ok := rev[name]
			vAssert(ok && back == num, "C20/syscall-not-injective")
		}
	}
}


func init() { vEntries["VH_ArchNames"] = VH_ArchNames }

// VH_ArchNames: every architecture name of the published table, given as -F arch=NAME, is encoded as
// that table's code (the resolver in front of the table included), so no two names share a code.
func VH_ArchNames() {
	type ent struct {
		name string
		code uint32
	}
	var all []ent
	for code, name := range auparse.AuditArchNames {
		all = append(all, ent{name, uint32(code)})
	}
	for i := 1; i < len(all); i++ {
		for j := i; j > 0 && all[j].name < all[j-1].name; j-- {
			all[j], all[j-1] = all[j-1], all[j]
		}
	}
	vAssert(len(all) > 20, "C20/arch-table-unexpectedly-small")
	e := all[vChoose("arch", len(all))]
	op := []string{"=", "!="}[vChoose("op", 2)]
	w, err := Build(&SyscallRule{Type: AppendSyscallRuleType, List: "exit", Action: "always", Filters: []FilterSpec{{Type: ValueFilterType, LHS: "arch", Comparator: op, RHS: e.name}}})
	if err != nil {
		vReach("C20/arch-name-rejected")
		return
	}
	vReach("C20/arch-name-accepted")
	vAssert(vLE32([]byte(w), vOffValues) == e.code, "C20/arch-name-resolves-to-another-code")
	vAssert(vLE32([]byte(w), vOffFields) == vUAPIFields["arch"], "C20/arch-field-code")
}
