// C12: Data() recovers the values the kernel encoded into a record.

package auparse

import (
	"fmt"
	"net"
	"sort"
	"strconv"
	"strings"
)

func init() {
	vEntries["VH_EncodedField"] = VH_EncodedField
	vEntries["VH_Execve"] = VH_Execve
	vEntries["VH_Saddr"] = VH_Saddr
	vEntries["VH_PlainField"] = VH_PlainField
	vEntries["VH_Derived"] = VH_Derived
}

const vHexDigits = "0123456789ABCDEF"

func vHexEncode(v []byte) string {
	out := make([]byte, 0, 2*len(v))
	for _, b := range v {
		out = append(out, vHexDigits[b>>4], vHexDigits[b&15])
	}
	return string(out)
}

// vKernelEncode writes v the way audit_log_untrustedstring does: in double quotes if every byte
// is in 0x21..0x7e and is not '"', otherwise as upper-case hex. The case split is one choice with
// the corresponding assumption, not a fork per byte.
func vKernelEncode(v []byte) string {
	safe := true
	for _, b := range v {
		safe = vAnd(safe, vAnd(vAnd(b >= 0x21, b <= 0x7e), b != '"'))
	}
	if vChoose("encoding", 2) == 0 {
		vAssume(safe)
		return `"` + string(v) + `"`
	}
	vAssume(!safe)
	return vHexEncode(v)
}

// vValue returns n symbolic bytes in lo..0xFF that satisfy the property's exclusions.
func vValue(name string, n int, lo byte) []byte {
	v := vBytes(name, n)
	for _, b := range v {
		vAssume(b >= lo)
	}
	if n > 0 {
		vAssume(vAnd(v[0] != '"', v[0] != '\''))     // does not begin with a quote character
		vAssume(vAnd(v[n-1] != '"', v[n-1] != '\'')) // does not end with one
		vAssume(v[n-1] != '\\')                      // does not end in a backslash
		vAssume(vAnd(v[0] != ' ', v[n-1] != ' '))    // surrounding blanks are trimmed by design
	}
	return v
}

func vNotPlaceholder(v []byte) {
	s := string(v)
	vAssume(vAnd(vAnd(s != "?", s != "?,"), vAnd(s != "(null)", s != "")))
}

func vSameBytes(got string, want []byte) bool {
	if len(got) != len(want) {
		return false
	}
	eq := true
	for i := range want {
		eq = vAnd(eq, got[i] == want[i])
	}
	return eq
}

type vFieldCase struct {
	typ    AuditMessageType
	prefix string
	key    string
	suffix string
}

var vFieldCases = []vFieldCase{
	{AUDIT_SYSCALL, "arch=c000003e syscall=59 success=yes exit=0 a0=1 items=2 ppid=1 pid=2 auid=1000 comm=\"ls\" ", "exe", " key=(null)"},
	{AUDIT_CWD, "", "cwd", ""},
	{AUDIT_PATH, "item=0 ", "name", " inode=5 dev=08:01 mode=0100755 ouid=0 ogid=0 rdev=00:00 nametype=NORMAL"},
	{AUDIT_PROCTITLE, "", "proctitle", ""},
	{AUDIT_USER_CMD, "pid=3 uid=0 auid=1000 ses=1 msg='cwd=\"/\" ", "cmd", " terminal=pts/0 res=success'"},
	{AUDIT_TTY, "tty pid=1 uid=0 auid=0 ses=1 major=136 minor=0 comm=\"bash\" ", "data", ""},
	{AUDIT_USER_TTY, "pid=1 uid=0 auid=0 ses=1 ", "data", ""},
	{AUDIT_USER_LOGIN, "pid=1 uid=0 auid=4294967295 ses=4294967295 msg='op=login ", "acct", " exe=\"/usr/sbin/sshd\" hostname=? addr=10.0.0.1 terminal=ssh res=failed'"},
	// appended later (indices above are referenced from checks.json): the same keys in the other record types that carry them
	{AUDIT_USER_CMD, "pid=3 uid=0 auid=1000 ses=1 msg='", "cwd", " cmd=\"ls\" terminal=pts/0 res=success'"},
}

// VH_EncodedField: exe, cwd, name, proctitle, cmd, data, acct.
func VH_EncodedField() {
	defer vWarm("C12")()
	c := vFieldCases[vParam("case", 0)]
	n := vParam("len", 3)
	lo := byte(1)
	if c.key == "proctitle" {
		lo = 0 // NULs separate the arguments and come back as spaces
	}
	v := vValue("v", n, lo)
	vNotPlaceholder(v)
	if long := vParam("long", 0); long > len(v) {
		// a value of `long` bytes in all: a concrete stem, the symbolic bytes at its end
		stem := make([]byte, long-len(v))
		for i := range stem {
			stem[i] = "/usr/local/share/some/long/name-"[i%32]
		}
		v = append(stem, v...)
	}
	want := append([]byte(nil), v...)
	if c.key == "proctitle" {
		for i := range want {
			want[i] = byte(vIf(want[i] == 0, ' ', uint64(want[i])))
		}
	}
	enc := vKernelEncode(v)
	m, err := Parse(c.typ, "audit(1.000:1): "+c.prefix+c.key+"="+enc+c.suffix)
	vAssert(err == nil && m != nil, "C12/record-rejected")
	if m == nil {
		return
	}
	// Recorded finding: a field nested in a single-quoted msg='...' payload whose value contains a
	// single quote ends the payload early (the kernel/user-space encoders do not hex-encode 0x27).
	if vKF("C12-single-quote-inside-msg") && strings.Contains(c.prefix, "msg='") {
		hasSQ := false
		for _, b := range v {
			hasSQ = vOr(hasSQ, b == '\'')
		}
		if hasSQ {
			d, err := m.Data()
			got, ok := d[c.key]
			vKnown("C12-single-quote-inside-msg", err == nil && ok && vSameBytes(got, want))
			return
		}
	}
	d, err := m.Data()
	vAssert(err == nil, "C12/data-failed")
	if err != nil {
		return
	}
	got, ok := d[c.key]
	vAssert(ok, "C12/decoded-field-missing")
	if ok {
		vAssert(vSameBytes(got, want), "C12/decoded-value-differs")
	}
}

// VH_Execve: argc and a0..a(argc-1), each kernel-encoded.
func VH_Execve() {
	defer vWarm("C12")()
	argc := vParam("argc", 2)
	n := vParam("len", 2)
	text := "argc=" + strconv.Itoa(argc)
	var args [][]byte
	for i := 0; i < argc; i++ {
		var v []byte
		if vParam("symlast", 0) != 0 && i < argc-1 {
			v = []byte{'x', byte('0' + i%10)} // many arguments: only the last one is symbolic
		} else {
			v = vValue("arg", n, 1)
			vNotPlaceholder(v)
		}
		if long := vParam("long", 0); long > len(v) && i == argc-1 {
			stem := make([]byte, long-len(v))
			for k := range stem {
				stem[k] = "--some-long-option=with/a/value+"[k%32]
			}
			v = append(stem, v...)
		}
		args = append(args, v)
		text += " a" + strconv.Itoa(i) + "=" + vKernelEncode(v)
	}
	m, err := Parse(AUDIT_EXECVE, "audit(1.000:1): "+text)
	vAssert(err == nil && m != nil, "C12/record-rejected")
	if m == nil {
		return
	}
	d, err := m.Data()
	vAssert(err == nil, "C12/data-failed")
	if err != nil {
		return
	}
	vAssert(d["argc"] == strconv.Itoa(argc), "C12/argc-changed")
	for i, v := range args {
		got, ok := d["a"+strconv.Itoa(i)]
		vAssert(ok, "C12/decoded-field-missing")
		if ok {
			vAssert(vSameBytes(got, v), "C12/decoded-value-differs")
		}
	}
}

func vPut16BE(v uint16) []byte { return []byte{byte(v >> 8), byte(v)} }

// VH_Saddr: struct sockaddr as hex.
func VH_Saddr() {
	defer vWarm("C12")()
	var raw []byte
	fam := vParam("family", 0)
	var port uint16
	var addr []byte
	var path []byte
	switch fam {
	case 0: // AF_INET
		port = vU16("port")
		addr = vBytes("addr", 4)
		raw = append(append(append([]byte{2, 0}, vPut16BE(port)...), addr...), make([]byte, 8)...)
	case 1: // AF_INET6
		port = vU16("port")
		addr = vBytes("addr", 16)
		// only `len` address bytes stay symbolic (each is two symbolic hex characters in the record)
		for i := vParam("len", 3); i < 16; i++ {
			vAssume(addr[i] == byte(0x20+i))
		}
		raw = append(append(append(append([]byte{10, 0}, vPut16BE(port)...), 0, 0, 0, 0), addr...), 0, 0, 0, 0)
	case 2: // AF_UNIX
		path = vBytes("path", vParam("len", 3))
		for _, b := range path {
			vAssume(b != 0)
		}
		if long := vParam("longpath", 0); long > 0 {
			// a path of `long` bytes in all: a concrete stem, the symbolic bytes at its end
			stem := make([]byte, long-len(path))
			for i := range stem {
				stem[i] = "/var/run/very/long/socket/path/"[i%31]
			}
			path = append(stem, path...)
		}
		raw = append(append([]byte{1, 0}, path...), 0)
		if vParam("noterm", 0) != 0 {
			raw = raw[:len(raw)-1] // sun_path filled to the last byte: no terminator
		} else if vChoose("trailing", 2) == 1 {
			raw = append(raw, vBytes("garbage", 2)...) // bytes after the terminator are not part of the path
		}
	case 3: // AF_NETLINK
		raw = append([]byte{16, 0}, vBytes("nl", 10)...)
	case 4: // some other family
		f := vU8("fam")
		vAssume(vAnd(vAnd(f != 1, f != 2), vAnd(f != 10, f != 16)))
		raw = append([]byte{f, 0}, vBytes("other", 6)...)
	}
	hexText := vHexEncode(raw)
	m, err := Parse(AUDIT_SOCKADDR, "audit(1.000:1): saddr="+hexText)
	vAssert(err == nil && m != nil, "C12/record-rejected")
	if m == nil {
		return
	}
	d, err := m.Data()
	vAssert(err == nil, "C12/data-failed")
	if err != nil {
		return
	}
	switch fam {
	case 0:
		vAssert(d["family"] == "ipv4", "C12/saddr-family")
		vAssert(d["addr"] == fmt.Sprintf("%d.%d.%d.%d", addr[0], addr[1], addr[2], addr[3]), "C12/saddr-address")
		vAssert(d["port"] == strconv.Itoa(int(port)), "C12/saddr-port")
	case 1:
		vAssert(d["family"] == "ipv6", "C12/saddr-family")
		got, want := d["addr"], net.IP(addr).String()
		vAssert(len(got) == len(want), "C12/saddr-address")
		for i := 0; i < len(got) && i < len(want); i++ {
			vAssert(got[i] == want[i], "C12/saddr-address") // one small query per character
		}
		vAssert(d["port"] == strconv.Itoa(int(port)), "C12/saddr-port")
	case 2:
		vAssert(d["family"] == "unix", "C12/saddr-family")
		vAssert(vSameBytes(d["path"], path), "C12/saddr-path")
	case 3:
		vAssert(d["family"] == "netlink" && d["saddr"] == hexText, "C12/saddr-passthrough")
	case 4:
		vAssert(d["family"] == strconv.Itoa(int(raw[0])) && d["saddr"] == hexText, "C12/saddr-passthrough")
	}
	_, still := d["saddr"]
	vAssert(still == (fam >= 3), "C12/saddr-key-left-behind")
}

// VH_PlainField: plain key=value fields are left unchanged; only the placeholders are dropped.
func VH_PlainField() {
	defer vWarm("C12")()
	n := vParam("len", 3)
	v := vASCII("v", n)
	for i := 0; i < n; i++ {
		c := v[i]
		// the kernel writes such values unquoted: no blanks, no quote characters
		vAssume(vAnd(vAnd(c > ' ', c < 0x7f), vAnd(c != '"', c != '\'')))
	}
	m, err := Parse(AUDIT_CONFIG_CHANGE, "audit(1.000:1): zz="+v+" res=1")
	vAssert(err == nil && m != nil, "C12/record-rejected")
	if m == nil {
		return
	}
	d, err := m.Data()
	vAssert(err == nil, "C12/data-failed")
	if err != nil {
		return
	}
	placeholder := vOr(vOr(v == "?", v == "?,"), vOr(v == "(null)", v == ""))
	got, ok := d["zz"]
	if placeholder {
		vAssert(!ok, "C12/placeholder-not-dropped")
	} else {
		vAssert(ok && got == v, "C12/plain-value-changed-or-dropped")
	}
	vAssert(d["result"] == "success", "C12/result-normalisation")
}

var vErrnoNums []int

// VH_Derived: result, unset ids, errno names, arch/syscall names.
func VH_Derived() {
	switch vParam("what", 0) {
	case 0: // success= / res= on the kernel's vocabulary
		words := []string{"yes", "no", "1", "0", "success", "failed"}
		i := vChoose("word", len(words))
		key := "res"
		if i < 2 {
			key = "success"
		}
		m, _ := Parse(AUDIT_CONFIG_CHANGE, "audit(1.000:1): op=x "+key+"="+words[i])
		d, err := m.Data()
		vAssert(err == nil, "C12/data-failed")
		want := "fail"
		if i == 0 || i == 2 || i == 4 {
			want = "success"
		}
		vAssert(d["result"] == want, "C12/result-normalisation")
		_, a := d["res"]
		_, b := d["success"]
		vAssert(!a && !b, "C12/result-source-key-left-behind")
	case 1: // arbitrary res values give success or fail
		v := vASCII("v", vParam("len", 3))
		for i := 0; i < len(v); i++ {
			vAssume(vAnd(vAnd(v[i] > ' ', v[i] < 0x7f), vAnd(v[i] != '"', v[i] != '\'')))
		}
		vAssume(vAnd(vAnd(v != "?", v != "?,"), v != ""))
		m, _ := Parse(AUDIT_CONFIG_CHANGE, "audit(1.000:1): op=x res="+v)
		d, err := m.Data()
		vAssert(err == nil, "C12/data-failed")
		vAssert(vOr(d["result"] == "success", d["result"] == "fail"), "C12/result-normalisation")
	case 2: // auid / ses / old-auid: unset iff 4294967295 or -1
		key := []string{"auid", "ses", "old-auid"}[vChoose("key", 3)]
		var text string
		var unset bool
		switch vChoose("form", 3) {
		case 0:
			text, unset = "-1", true
		case 1:
			text, unset = "4294967295", true
		case 2:
			x := vU32("id")
			vAssume(x != 4294967295)
			text = strconv.FormatUint(uint64(x), 10)
		}
		m, _ := Parse(AUDIT_CONFIG_CHANGE, "audit(1.000:1): "+key+"="+text+" res=1")
		d, err := m.Data()
		vAssert(err == nil, "C12/data-failed")
		if unset {
			vAssert(d[key] == "unset", "C12/unset-id")
		} else {
			vAssert(d[key] == text, "C12/id-changed")
		}
	case 3: // exit=-N gives the errno name, other values stay
		if vErrnoNums == nil {
			for n := range AuditErrnoToName {
				vErrnoNums = append(vErrnoNums, n)
			}
			sort.Ints(vErrnoNums) // map order must not matter to the replay
		}
		var text, want string
		switch vChoose("form", 3) {
		case 0:
			n := vErrnoNums[vChoose("errno", len(vErrnoNums))]
			text, want = "-"+strconv.Itoa(n), AuditErrnoToName[n]
		case 1:
			x := vU32("exit")
			vAssume(x < 1<<31)
			text = strconv.FormatUint(uint64(x), 10)
			want = text
		case 2:
			text, want = "-9999", "-9999"
		}
		m, _ := Parse(AUDIT_SYSCALL, "audit(1.000:1): arch=c000003e syscall=2 success=no exit="+text+" exe=\"/bin/x\"")
		d, err := m.Data()
		vAssert(err == nil, "C12/data-failed")
		vAssert(d["exit"] == want, "C12/exit-code-name")
	case 4: // arch + syscall numbers give the table's names
		var codes []AuditArch
		for c := range AuditArchNames {
			codes = append(codes, c)
		}
		sort.Slice(codes, func(i, j int) bool { return codes[i] < codes[j] })
		code := codes[vChoose("arch", len(codes))]
		if vParam("onlyx86", 0) != 0 {
			vAssume(code == AUDIT_ARCH_X86_64)
		}
		archName := AuditArchNames[code]
		table := AuditSyscalls[archName]
		var nums []int
		for n := range table {
			nums = append(nums, n)
		}
		sort.Ints(nums)
		if vParam("sample", 0) != 0 && len(nums) > 3 {
			nums = []int{nums[0], nums[len(nums)/2], nums[len(nums)-1]}
		}
		text := "arch=" + strconv.FormatUint(uint64(code), 16) + " syscall="
		var wantSys string
		if len(nums) > 0 && vChoose("known", 2) == 0 {
			n := nums[vChoose("syscall", len(nums))]
			text += strconv.Itoa(n)
			wantSys = table[n]
		} else {
			text += "99999"
			wantSys = "99999"
		}
		m, _ := Parse(AUDIT_SYSCALL, "audit(1.000:1): "+text+" success=yes exit=0 exe=\"/bin/x\"")
		d, err := m.Data()
		vAssert(err == nil, "C12/data-failed")
		vAssert(d["arch"] == archName, "C12/arch-name")
		vAssert(d["syscall"] == wantSys, "C12/syscall-name")
	}
}
