// Harness-side constructor used by the aucoalesce harnesses: an AuditMessage whose Data()/Tags()
// are pre-parsed (the tokenizer is the subject of C05/C12 and is not re-explored by C09/C15).

package auparse

import "time"

// VNewMessage returns a message that reports exactly data/tags (or err) from Data()/Tags().
func VNewMessage(typ AuditMessageType, seq uint32, sec int64, data map[string]string, tags []string, err error) *AuditMessage {
	m := &AuditMessage{RecordType: typ, Sequence: seq, Timestamp: time.Unix(sec, 0).UTC(), RawData: "audit(x): pre-parsed by the harness", offset: 0}
	if err != nil {
		m.error = err
		return m
	}
	if data == nil {
		data = map[string]string{}
	}
	m.data = data
	m.tags = tags
	return m
}
