// Harnesses for the audit log parser (properties C04, C05, C12, C20).

package auparse

import (
	"strconv"
	"strings"
	"time"
)

func init() {
	vEntries["VH_LineTotal"] = VH_LineTotal
	vEntries["VH_BodyTotal"] = VH_BodyTotal
	vEntries["VH_FieldTotal"] = VH_FieldTotal
}

func vASCII(name string, n int) string {
	s := vStr(name, n)
	for i := 0; i < len(s); i++ {
		vAssume(s[i] < 0x80)
	}
	return s
}

// vSameAny compares two values stored in ToMapStr maps.
func vSameAny(a, b interface{}) bool {
	switch x := a.(type) {
	case string:
		y, ok := b.(string)
		return ok && x == y
	case []string:
		y, ok := b.([]string)
		if !ok || len(x) != len(y) {
			return false
		}
		for i := range x {
			if x[i] != y[i] {
				return false
			}
		}
		return true
	}
	return false
}

// vUseMessage exercises every accessor twice and checks repeatability and error reporting.
func vUseMessage(m *AuditMessage, prop string) {
	d1, e1 := m.Data()
	t1, te1 := m.Tags()
	ms1 := m.ToMapStr()
	d2, e2 := m.Data()
	t2, te2 := m.Tags()
	ms2 := m.ToMapStr()
	vAssert((e1 == nil) == (e2 == nil) && (te1 == nil) == (te2 == nil) && (e1 == nil) == (te1 == nil), prop+"/second-call-differs")
	vAssert(len(d1) == len(d2) && len(t1) == len(t2) && len(ms1) == len(ms2), prop+"/second-call-differs")
	for k, v := range d1 {
		v2, ok := d2[k]
		vAssert(ok && v2 == v, prop+"/second-call-differs")
	}
	for i := range t1 {
		if i < len(t2) {
			vAssert(t1[i] == t2[i], prop+"/second-call-differs")
		}
	}
	for k, v := range ms1 {
		v2, ok := ms2[k]
		if k == "error" {
			// the text is that of the same error value; only its presence is compared
			vAssert(ok, prop+"/second-call-differs")
			continue
		}
		vAssert(ok && vSameAny(v, v2), prop+"/second-call-differs")
	}
	_, hasErr := ms1["error"]
	vAssert(hasErr == (e1 != nil), prop+"/data-error-not-reported-in-mapstr")
	if e1 != nil {
		vAssert(d1 == nil, prop+"/data-and-error-both-returned")
	}
}

var vWarmLines = []string{
	`type=SYSCALL msg=audit(1.000:1): arch=c000003e syscall=59 success=yes exit=0 a0=1 items=2 ppid=1 pid=2 auid=1000 uid=0 ses=4294967295 comm="ls" exe="/bin/ls" key=(null)`,
	`type=EXECVE msg=audit(1.000:1): argc=2 a0="ls" a1=2D6C20`,
	`type=PATH msg=audit(1.000:1): item=0 name=2F746D702F6120 inode=5 dev=08:01 mode=0100755 ouid=0 ogid=0 rdev=00:00 nametype=NORMAL`,
	`type=SOCKADDR msg=audit(1.000:1): saddr=02000050C0A80001000000000000000`+`0`,
	`type=AVC msg=audit(1.000:1): avc:  denied  { read write } for  pid=1 comm="x" scontext=a:b:c:s0 tcontext=d:e:f:s0 tclass=file`,
	`type=USER_CMD msg=audit(1.000:1): pid=3 uid=0 auid=1000 ses=1 msg='cwd="/" cmd=6C73202D6C terminal=pts/0 res=success'`,
	`type=PROCTITLE msg=audit(1.000:1): proctitle=6C73002D6C`,
}

// vWarm (parameter "warm"): the parser is used on a handful of ordinary records first - whatever it
// keeps between calls (caches, pools, scratch buffers) is then in the state a running program has it
// in, not fresh. The returned function checks at the end that those earlier messages still report
// what they reported when they were parsed.
func vWarm(prop string) func() {
	if vParam("warm", 0) == 0 {
		return func() {}
	}
	type kept struct {
		m  *AuditMessage
		d  map[string]string
		t  []string
		rt AuditMessageType
		sq uint32
	}
	var ks []kept
	for _, l := range vWarmLines {
		m, err := ParseLogLine(l)
		vAssert(err == nil && m != nil, prop+"/ordinary-record-rejected")
		if m == nil {
			continue
		}
		d, _ := m.Data()
		t, _ := m.Tags()
		_ = m.ToMapStr()
		cp := make(map[string]string, len(d))
		for k, v := range d {
			cp[k] = v
		}
		ks = append(ks, kept{m, cp, append([]string(nil), t...), m.RecordType, m.Sequence})
	}
	return func() {
		for _, k := range ks {
			d, _ := k.m.Data()
			same := len(d) == len(k.d) && k.m.RecordType == k.rt && k.m.Sequence == k.sq
			for key, v := range k.d {
				v2, ok := d[key]
				same = same && ok && v2 == v
			}
			t, _ := k.m.Tags()
			same = same && len(t) == len(k.t)
			vAssert(same, prop+"/earlier-message-changed-by-a-later-parse")
		}
	}
}

// VH_LineTotal: ParseLogLine on every ASCII line of n bytes.
func VH_LineTotal() {
	n := vLen("n", vParam("maxlen", 4))
	line := vASCII("line", n)
	switch vParam("template", 0) {
	case 1: // the record type name is the unknown
		line = "type=" + line + " msg=audit(1.000:1): a=b"
	case 2: // what stands between the type and the header is the unknown
		line = "type=SYSCALL" + line + "audit(1.000:1): a=b"
	case 3: // inside UNKNOWN[...]
		line = "type=UNKNOWN[" + line + "] msg=audit(1.000:1): a=b"
	case 4: // everything between "type=" and the header
		line = "type=" + line + "audit(1.000:1): a=b"
	case 5: // whatever precedes " msg=" (node=..., nothing, junk), with a type= key only in the body
		line = line + " msg=audit(1.000:1): type=x a=b"
	}
	m, err := ParseLogLine(line)
	vAssert((err != nil) == (m == nil), "C05/error-and-message-disagree")
	if m != nil {
		vUseMessage(m, "C05")
	}
}

var vTypes = []AuditMessageType{AUDIT_SYSCALL, AUDIT_SECCOMP, AUDIT_SOCKADDR, AUDIT_PROCTITLE, AUDIT_USER_CMD, AUDIT_TTY, AUDIT_USER_TTY,
	AUDIT_EXECVE, AUDIT_PATH, AUDIT_USER_LOGIN, AUDIT_AVC, AUDIT_LOGIN, AUDIT_CRED_DISP, AUDIT_USER_START, AUDIT_USER_END, AUDIT_EOE, AuditMessageType(1999)}

// VH_BodyTotal: Parse(t, header + body) with an arbitrary ASCII body of n bytes.
func VH_BodyTotal() {
	defer vWarm("C05")()
	n := vLen("n", vParam("maxlen", 3))
	ti := vParam("type", -1)
	var t AuditMessageType
	if ti >= 0 {
		t = vTypes[ti]
	} else {
		t = AuditMessageType(vU16("type"))
	}
	body := vASCII("body", n)
	if vParam("avc", 0) == 2 {
		// the same with the blank in front of "for" written out, so that the unknown part is one word longer
		body = "avc:  denied  " + body + " for  pid=1 comm=\"x\" scontext=a:b:c:s0 tcontext=d:e:f:s0 tclass=file"
	} else if vParam("avc", 0) != 0 {
		// an SELinux AVC line with the middle part unknown (permission set present, absent, damaged)
		body = "avc:  denied  " + body + "for  pid=1 comm=\"x\" scontext=a:b:c:s0 tcontext=d:e:f:s0 tclass=file"
	}
	hdr := "audit(1.000:1): "
	if vParam("bare", 0) != 0 {
		hdr = "audit(1.000:1)" // the body follows the header directly: Data() may find no content
	}
	m, err := Parse(t, hdr+body)
	vAssert((err != nil) == (m == nil), "C05/error-and-message-disagree")
	if m != nil {
		vUseMessage(m, "C05")
	}
}

var vKeys = []string{"saddr", "argc", "a0", "a1", "exit", "arch", "syscall", "sig", "subj", "obj", "key", "success", "res", "auid", "old-auid", "ses",
	"cwd", "exe", "proctitle", "cmd", "data", "name", "acct", "msg"}

// VH_FieldTotal: key=<v> templates with v of n symbolic bytes, unquoted and quoted, for every key an
// enrichment step looks at, on the record type that step belongs to.
func VH_FieldTotal() {
	defer vWarm("C05")()
	ki := vParam("key", 0)
	n := vLen("n", vParam("maxlen", 3))
	t := vTypes[vParam("type", 0)]
	v := vASCII("v", n)
	// a concrete beginning (parameter "stem") in front of the symbolic part: values with more structure
	// than a few bytes can have (an SELinux context with an MLS range, a long key list, a path)
	v = []string{"", "staff_u:staff_r:staff_t:s0:c0-s0", "a:b:c:d:e:f:g:", "6B31016B32016B33", "/a/b/c/d/e/f/g/h/", "1,2,3,4,5,6,7,8,"}[vParam("stem", 0)] + v
	// concrete non-ASCII bytes after the symbolic ASCII part (the regexp summary needs symbolic bytes
	// to be ASCII, concrete ones may be anything)
	v += []string{"", "\xc3\xa9", "\xff", "\x80\xfe", "\xe2\x82\xac"}[vParam("nonascii", 0)]
	var field string
	switch vChoose("quote", 3) {
	case 0:
		field = vKeys[ki] + "=" + v
	case 1:
		field = vKeys[ki] + `="` + v + `"`
	case 2:
		field = vKeys[ki] + "='" + v + "'"
	}
	extra := ""
	switch vParam("with", 0) {
	case 1:
		extra = " arch=c000003e"
	case 2:
		extra = " argc=2"
	case 3:
		extra = " a0=6C73"
	}
	m, err := Parse(t, "audit(1.000:1): "+field+extra)
	vAssert(err == nil && m != nil, "C05/valid-header-rejected")
	if m != nil {
		vUseMessage(m, "C05")
	}
}

var _ = strconv.Itoa
var _ = strings.Index

func init() { vEntries["VH_SaddrTotal"] = VH_SaddrTotal }

func vHexUpper(name string, n int) string {
	s := vStr(name, n)
	for i := 0; i < len(s); i++ {
		c := s[i]
		vAssume(vOr(vAnd(c >= '0', c <= '9'), vAnd(c >= 'A', c <= 'F')))
	}
	return s
}

// VH_SaddrTotal: SOCKADDR records whose saddr is L hex digits: the family (first 4) and up to
// `sym` further digits symbolic, the rest '0'.
func VH_SaddrTotal() {
	L := vParam("len", 16)
	nsym := vParam("sym", 8)
	var sb []byte
	fam := vChoose("family", 5)
	head := ""
	switch fam {
	case 0:
		head = "0100"
	case 1:
		head = "0200"
	case 2:
		head = "0A00"
	case 3:
		head = "1000"
	case 4:
		head = vHexUpper("fam", 4)
	}
	if L < 4 {
		head = head[:L]
	}
	sb = append(sb, head...)
	rest := L - len(sb)
	if rest > 0 {
		k := nsym
		if k > rest {
			k = rest
		}
		sb = append(sb, vHexUpper("digits", k)...)
		for len(sb) < L {
			sb = append(sb, '0')
		}
	}
	m, err := Parse(AUDIT_SOCKADDR, "audit(1.000:1): saddr="+string(sb))
	vAssert(err == nil && m != nil, "C05/valid-header-rejected")
	if m != nil {
		vUseMessage(m, "C05")
	}
}

// ---- C04: header round trip ---------------------------------------------------------------

func init() {
	vEntries["VH_Header"] = VH_Header
	vEntries["VH_HeaderBad"] = VH_HeaderBad
}

func vDigits(name string, n int) string {
	s := vStr(name, n)
	for i := 0; i < len(s); i++ {
		vAssume(vAnd(s[i] >= '0', s[i] <= '9'))
	}
	return s
}

// vHorner is the value of a digit string, by construction (no parsing).
func vHorner(d string) uint64 {
	var v uint64
	for i := 0; i < len(d); i++ {
		v = v*10 + uint64(d[i]-'0')
	}
	return v
}

var vHostileBodies = []string{
	`record_type=FAKE sequence=9 raw_msg=z tags=q error=e @timestamp=1 a=b`,
	`msg=audit(2.000:3): x=y`,
	`arch=c000003e syscall=2 success=yes exit=3 ) : ( . msg='op=x res=success'`,
	"caf\xc3\xa9=\xff\xfe key=\"a=b\"",
	``,
}

var vNamedTypes = []AuditMessageType{AUDIT_SYSCALL, AUDIT_PATH, AUDIT_AVC, AUDIT_EOE, AUDIT_USER_LOGIN, AUDIT_GET}

func vPickType() AuditMessageType {
	switch vParam("typemode", 0) {
	case 0:
		return vNamedTypes[vChoose("type", len(vNamedTypes))]
	case 1: // codes outside the named ranges: rendered as UNKNOWN[n]
		t := vU16("type")
		vAssume(vOr(t < 1000, t >= 2600))
		return AuditMessageType(t)
	}
	return AuditMessageType(vU16("type"))
}

// vPrelude: what a parse returns must not depend on what was parsed before (a parser that keeps
// state between calls - a cached header, a reused buffer - is only visible in a history). With the
// parameter "prelude" = k > 0 an earlier well-formed line is parsed first: same number of seconds
// digits, its own symbolic digits everywhere, a sequence of k digits (so that its header text can be
// a proper prefix of the next one, equal to it, or unrelated). The returned function checks the
// earlier message again at the end.
func vPrelude(secdigits int) func() {
	k := vParam("prelude", 0)
	if k <= 0 {
		return func() {}
	}
	secD := vDigits("psec", secdigits)
	msD := vDigits("pms", 3)
	seqD := vDigits("pseq", k)
	vAssume(vHorner(secD) < 1<<34)
	text := "audit(" + secD + "." + msD + ":" + seqD + "): a=b"
	var m0 *AuditMessage
	var err error
	if vParam("preludeline", 0) != 0 {
		m0, err = ParseLogLine("type=PATH msg=" + text)
	} else {
		m0, err = Parse(AUDIT_PATH, text)
	}
	vAssert(err == nil && m0 != nil, "C04/written-header-rejected")
	if m0 == nil {
		return func() {}
	}
	S, MS, N := vHorner(secD), vHorner(msD), vHorner(seqD)
	return func() {
		vAssert(m0.RecordType == AUDIT_PATH && m0.Sequence == uint32(N) && m0.RawData == text &&
			m0.Timestamp.Unix() == int64(S) && m0.Timestamp.Nanosecond() == int(MS)*1000000,
			"C04/earlier-message-changed-by-a-later-parse")
	}
}

// VH_Header: a written header parses back to exactly what was written.
func VH_Header() {
	t := vPickType()
	defer vPrelude(vParam("secdigits", 10))()
	secD := vDigits("sec", vParam("secdigits", 10))
	msD := vDigits("ms", 3)
	seqD := vDigits("seq", vParam("seqdigits", 10))
	S, MS, N := vHorner(secD), vHorner(msD), vHorner(seqD)
	vAssume(S < 1<<34)
	vAssume(N < 1<<32)
	var body string
	if hb := vParam("hostile", -1); hb >= 0 {
		body = vHostileBodies[hb]
	} else {
		body = vASCII("body", vLen("bodylen", vParam("bodymax", 3)))
	}
	name := t.String()
	if vParam("lower", 0) != 0 {
		name = strings.ToLower(name)
	}
	text := "audit(" + secD + "." + msD + ":" + seqD + "): " + body
	line := "type=" + name + " msg=" + text
	m, err := ParseLogLine(line)
	vAssert(err == nil && m != nil, "C04/written-header-rejected")
	if m == nil {
		return
	}
	vAssert(m.RecordType == t, "C04/record-type")
	vAssert(m.Timestamp.Unix() == int64(S), "C04/timestamp-seconds")
	vAssert(m.Timestamp.Nanosecond() == int(MS)*1000000, "C04/timestamp-milliseconds")
	vAssert(m.Timestamp.Location() == time.UTC, "C04/timestamp-not-utc")
	vAssert(m.Sequence == uint32(N), "C04/sequence")
	vAssert(m.RawData == strings.TrimSpace(text), "C04/raw-data")
	// Parse agrees with ParseLogLine
	m2, err2 := Parse(t, text)
	vAssert(err2 == nil && m2 != nil, "C04/parse-disagrees-with-parseLogLine")
	if m2 != nil {
		vAssert(m2.RecordType == m.RecordType && m2.Sequence == m.Sequence && m2.RawData == m.RawData &&
			m2.Timestamp.Equal(m.Timestamp), "C04/parse-disagrees-with-parseLogLine")
	}
	// ToMapStr reports the header, whatever the body says
	ms := m.ToMapStr()
	vAssert(vSameAny(ms["record_type"], t.String()), "C04/mapstr-record-type")
	canon := seqD // the digits that were written, without leading zeros
	for len(canon) > 1 && canon[0] == '0' {
		canon = canon[1:]
	}
	vAssert(vSameAny(ms["sequence"], canon), "C04/mapstr-sequence")
	vAssert(vSameAny(ms["raw_msg"], m.RawData), "C04/mapstr-raw-msg")
	vAssert(vSameAny(ms["@timestamp"], m.Timestamp.UTC().String()), "C04/mapstr-timestamp")
}

// VH_HeaderBad: malformed headers yield an error and no message.
func VH_HeaderBad() {
	secD, msD, seqD := "1490137971", "011", "50406"
	mode := vParam("mode", 0)
	if vParam("prelude", 0) != 0 { // the well-formed header is parsed first (see vPrelude)
		good := "audit(" + secD + "." + msD + ":" + seqD + "): a=b"
		m, err := Parse(AUDIT_SYSCALL, good)
		vAssert(err == nil && m != nil && m.Sequence == 50406, "C04/written-header-rejected")
		m, err = ParseLogLine("type=SYSCALL msg=" + good)
		vAssert(err == nil && m != nil && m.Sequence == 50406, "C04/written-header-rejected")
	}
	switch mode {
	case 0: // sequence out of the uint32 range
		seqD = vDigits("seq", vParam("seqdigits", 10))
		vAssume(vHorner(seqD) >= 1<<32)
	case 1: // one byte of one field is neither a digit, a sign nor a delimiter
		f := vChoose("field", 3)
		c := vU8("bad")
		vAssume(c < 0x80)
		vAssume(!vAnd(c >= '0', c <= '9'))
		vAssume(vAnd(c != '+', c != '-'))
		vAssume(vAnd(vAnd(c != '(', c != ')'), vAnd(c != '.', c != ':')))
		switch f {
		case 0:
			p := vChoose("pos", len(secD))
			secD = secD[:p] + string([]byte{c}) + secD[p+1:]
		case 1:
			p := vChoose("pos", len(msD))
			msD = msD[:p] + string([]byte{c}) + msD[p+1:]
		case 2:
			p := vChoose("pos", len(seqD))
			seqD = seqD[:p] + string([]byte{c}) + seqD[p+1:]
		}
	case 2: // an empty field
		switch vChoose("field", 3) {
		case 0:
			secD = ""
		case 1:
			msD = ""
		case 2:
			seqD = ""
		}
	case 3: // a sign in the sequence field
		seqD = string([]byte{"+-"[vChoose("sign", 2)]}) + seqD
	}
	if mode == 5 || mode == 6 {
		vHeaderWindow(mode)
		return
	}
	text := "audit(" + secD + "." + msD + ":" + seqD + "): a=b"
	if mode == 4 { // every truncation that cuts the header
		closing := strings.IndexByte(text, ')')
		text = text[:vChoose("cut", closing+1)]
	}
	m, err := Parse(AUDIT_SYSCALL, text)
	vAssert(err != nil && m == nil, "C04/malformed-header-accepted")
	m, err = ParseLogLine("type=SYSCALL msg=" + text)
	vAssert(err != nil && m == nil, "C04/malformed-header-accepted")
}


// vHeaderWindow: the delimiters of the header themselves are the unknowns. Whatever happens to
// them the calls return (no panic), error and message agree, and a text that lacks one of the
// four delimiters is not a header.
func vHeaderWindow(mode int) {
	var text string
	if mode == 5 {
		n := vLen("n", vParam("window", 3))
		w := vStr("w", n)
		for i := 0; i < n; i++ {
			vAssume(w[i] < 0x80)
		}
		tails := []string{"1.000:5): cwd=(x)", ": a=b", ""}
		text = "audit" + w + tails[vChoose("tail", len(tails))]
	} else {
		b := []byte("audit(12.345:67): a=(b)")
		p1 := vChoose("p1", 16)
		p2 := p1 + 1 + vChoose("p2", 16-p1)
		c1, c2 := vU8("c1"), vU8("c2")
		vAssume(vAnd(c1 < 0x80, c2 < 0x80))
		b[p1] = c1
		if p2 < len(b) {
			b[p2] = c2
		}
		text = string(b)
	}
	var hasOpen, hasClose, hasDot, hasColon bool
	for i := 0; i < len(text); i++ {
		hasOpen = vOr(hasOpen, text[i] == '(')
		hasClose = vOr(hasClose, text[i] == ')')
		hasDot = vOr(hasDot, text[i] == '.')
		hasColon = vOr(hasColon, text[i] == ':')
	}
	all4 := vAnd(vAnd(hasOpen, hasClose), vAnd(hasDot, hasColon))
	m, err := Parse(AUDIT_SYSCALL, text)
	vAssert((err != nil) == (m == nil), "C04/error-and-message-disagree")
	vAssert(vOr(all4, err != nil), "C04/malformed-header-accepted")
	if m != nil {
		vReach("C04/window-accepted")
		_, _ = m.Data()
		_, _ = m.Tags()
		_ = m.ToMapStr()
	}
	m, err = ParseLogLine("type=SYSCALL msg=" + text)
	vAssert((err != nil) == (m == nil), "C04/error-and-message-disagree")
	vAssert(vOr(all4, err != nil), "C04/malformed-header-accepted")
}

func init() { vEntries["VH_HexInternals"] = VH_HexInternals }

// VH_HexInternals (auxiliary, uses unexported functions): the hex and sockaddr decoders on every
// byte string of n bytes, all 256 values per byte.
func VH_HexInternals() {
	n := vLen("n", vParam("maxlen", 4))
	s := vStr("s", n)
	switch vParam("fn", 0) {
	case 0:
		out, err := hexToString(s)
		vAssert(err != nil || len(out) <= n/2, "C05/hex-decoder-result")
	case 1:
		out, err := hexToStrings(s)
		vAssert(err != nil || len(out) >= 1, "C05/hex-decoder-result")
	case 2:
		m, err := parseSockaddr(s)
		vAssert((err != nil) == (m == nil), "C05/error-and-message-disagree")
	}
}
