// C20 (auparse part): name/number tables are mutually inverse and internally consistent.

package auparse

func init() {
	vEntries["VH_TypeRoundTrip"] = VH_TypeRoundTrip
	vEntries["VH_TypeNames"] = VH_TypeNames
	vEntries["VH_ErrnoTables"] = VH_ErrnoTables
	vEntries["VH_ArchSyscallTables"] = VH_ArchSyscallTables
}

// VH_TypeRoundTrip: every one of the 65536 record type codes converts to a name and back.
func VH_TypeRoundTrip() {
	t := AuditMessageType(vU16("type"))
	switch vParam("range", 0) {
	case 1:
		vAssume(vOr(t < 1000, t >= 2600))
	case 2:
		vAssume(vAnd(t >= 1000, t < 1400))
	case 3:
		vAssume(vAnd(t >= 1400, t < 2600))
	}
	name := t.String()
	back, err := GetAuditMessageType(name)
	vAssert(err == nil, "C20/type-name-not-accepted")
	vAssert(back == t, "C20/type-name-maps-to-other-number")
	txt, err := t.MarshalText()
	vAssert(err == nil, "C20/marshal-text-failed")
	// the text of one type is still that type's text after other types have been marshalled, and the
	// name of one type after other names have been produced (results are values, not views of a scratch buffer)
	for _, o := range []AuditMessageType{AUDIT_PATH, AUDIT_SYSCALL, AuditMessageType(7)} {
		otxt, oerr := o.MarshalText()
		_ = o.String()
		var ou AuditMessageType
		vAssert(oerr == nil && ou.UnmarshalText(otxt) == nil && ou == o, "C20/text-marshalling-not-inverse")
	}
	vAssert(name == t.String(), "C20/type-name-changed-by-later-calls")
	var u AuditMessageType
	err = u.UnmarshalText(txt)
	vAssert(err == nil && u == t, "C20/text-marshalling-not-inverse")
}

// VH_TypeNames: every name of the name->type table maps to a number whose name maps back to it.
func VH_TypeNames() {
	n := 0
	for name, typ := range auditMessageNameToType {
		got, err := GetAuditMessageType(name)
		vAssert(err == nil && got == typ, "C20/name-table-lookup")
		again, err := GetAuditMessageType(typ.String())
		vAssert(err == nil && again == typ, "C20/name-number-name-not-stable")
		n++
	}
	for typ, name := range auditMessageTypeToName {
		got, err := GetAuditMessageType(name)
		vAssert(err == nil && got == typ, "C20/type-table-name-not-parsable")
		n++
	}
	vAssert(n > 300, "C20/type-tables-unexpectedly-small")
}

func VH_ErrnoTables() {
	for num, name := range AuditErrnoToName {
		back, ok := AuditErrnoToNum[name]
		vAssert(ok && back == num, "C20/errno-number-name-number")
	}
	for name, num := range AuditErrnoToNum {
		canon, ok := AuditErrnoToName[num]
		vAssert(ok, "C20/errno-alias-number-has-no-name")
		if ok {
			back, ok2 := AuditErrnoToNum[canon]
			vAssert(ok2 && back == num, "C20/errno-alias-resolves-elsewhere")
		}
		_ = name
	}
	vAssert(len(AuditErrnoToName) > 100, "C20/errno-table-unexpectedly-small")
}

func VH_ArchSyscallTables() {
	// architecture codes <-> names: a bijection
	seen := map[string]AuditArch{}
	for code, name := range AuditArchNames {
		other, dup := seen[name]
		vAssert(!dup || other == code, "C20/arch-name-used-for-two-codes")
		seen[name] = code
		vAssert(code.String() == name, "C20/arch-string")
	}
	vAssert(len(seen) == len(AuditArchNames) && len(seen) > 30, "C20/arch-table")
	// per-arch syscall tables: a name maps to one number
	total := 0
	for arch, table := range AuditSyscalls {
		names := map[string]int{}
		for num, name := range table {
			prev, dup := names[name]
			vAssert(!dup || prev == num, "C20/syscall-name-maps-to-two-numbers")
			names[name] = num
			total++
		}
		_ = arch
	}
	vAssert(total > 2000, "C20/syscall-tables-unexpectedly-small")
	// ppc64 / ppc64le share the ppc table
	ppc := AuditSyscalls["ppc"]
	for _, alias := range []string{"ppc64", "ppc64le"} {
		t := AuditSyscalls[alias]
		vAssert(len(t) == len(ppc) && len(t) > 0, "C20/ppc-alias-table")
		for num, name := range ppc {
			vAssert(t[num] == name, "C20/ppc-alias-table")
		}
	}
}
