//go:build linux

// Harness for the Reassembler (properties C01, C02, C03, C10, C19), driven through the
// exported API only. The monitor below reconstructs what must be delivered from the
// harness's own log of pushes; it never reads the Reassembler's internal state.

package libaudit

import (
	"time"

	"github.com/elastic/go-libaudit/v2/auparse"
)

func init() {
	vEntries["VH_Reassembler"] = VH_Reassembler
	vEntries["VH_ReassemblerNilStream"] = VH_ReassemblerNilStream
}

// vInst is one event instance as the harness sees it.
type vInst struct {
	seq         uint32
	msgs        []*auparse.AuditMessage // pushed non-EOE records, in push order
	complete    bool                    // from the UAPI type ranges / EOE, not from event.complete
	firstPush   int                     // call number of the first push
	delivered   bool
	deliveredAt int // call number of the delivery
	createdK    int // index of the clock reading handed out at creation (C19)
	overCap     bool
}

type vMon struct {
	base        uint32
	maxInFlight int
	timeoutInf  bool
	insts       []*vInst // all instances ever, in creation order
	have        bool     // ghost: some in-order delivery happened
	last        uint32   // ghost: last in-order delivered sequence (C03)
	expLost     uint64
	gotLost     uint64
	call        int // current call number
	inClose     bool
	nDeliveries int
	peakLive    int // max number of undelivered instances seen during the current call
	symClock    bool
	toSec       int64 // timeout, seconds part (floor) and nanoseconds part in [0,1e9)
	toNsec      int64
	clock0      int // number of clock readings consumed before the current call
	callStartK  int // index of the harness's own clock reading taken just before the current call (-1: none)
	hook        func() // called once, from inside the first delivery (a Stream that calls back in)
}

// expiry returns created+timeout of an instance as (sec, nsec), without multiplication.
func (m *vMon) expiry(in *vInst) (int64, int64) {
	cs, cn := vClockSec(in.createdK), vClockNsec(in.createdK)
	n := cn + m.toNsec
	carry := n >= 1000000000
	return cs + m.toSec + int64(vIf(carry, 1, 0)), n - int64(vIf(carry, 1000000000, 0))
}

// before reports (as, an) < (bs, bn).
func vBefore(as, an, bs, bn int64) bool { return vOr(as < bs, vAnd(as == bs, an < bn)) }


func (m *vMon) ord(s uint32) uint32 { return s - m.base }

func (m *vMon) live() []*vInst {
	var out []*vInst
	for _, in := range m.insts {
		if !in.delivered {
			out = append(out, in)
		}
	}
	return out
}

// notePush records a push before the implementation sees it.
func (m *vMon) notePush(msg *auparse.AuditMessage, typ uint16, seq uint32) {
	isEOE := typ == 1320
	completing := vOr(typ == 1327, vOr(typ <= 1299, typ >= 2100))
	var cur *vInst
	for _, in := range m.insts {
		if !in.delivered && in.seq == seq {
			cur = in
			break
		}
	}
	if isEOE {
		if cur != nil {
			cur.complete = true
		}
		return
	}
	if cur == nil {
		cur = &vInst{seq: seq, firstPush: m.call, createdK: m.clock0}
		m.insts = append(m.insts, cur)
	}
	cur.msgs = append(cur.msgs, msg)
	cur.complete = vOr(cur.complete, completing)
	if n := len(m.live()); n > m.peakLive {
		m.peakLive = n
	}
}

func (m *vMon) ReassemblyComplete(g []*auparse.AuditMessage) {
	vAssert(len(g) > 0, "C01/empty-group")
	if len(g) == 0 {
		return
	}
	// which instance is this? (pointer identity; concrete)
	var in *vInst
	for _, c := range m.insts {
		if len(c.msgs) > 0 && c.msgs[0] == g[0] {
			in = c
		}
	}
	vAssert(in != nil, "C01/delivered-something-not-pushed")
	if in == nil {
		return
	}
	if h := m.hook; h != nil {
		m.hook = nil
		defer h() // after this delivery has been recorded, still inside the callback
	}
	vAssert(!in.delivered, "C01/delivered-twice")
	if m.inClose {
		vAssert(!in.delivered, "C19/close-delivered-an-event-twice")
	}
	same := len(g) == len(in.msgs)
	if same {
		for i := range g {
			if g[i] != in.msgs[i] {
				same = false
			}
		}
	}
	vAssert(same, "C01/group-is-not-exactly-the-pushed-records-in-order")
	for _, x := range g {
		vAssert(x.Sequence == in.seq, "C01/mixed-sequence-in-group")
	}
	// C02: every earlier delivery with a larger ord must predate our first push
	for _, e := range m.insts {
		if e.delivered {
			vAssert(vOr(!(m.ord(in.seq) < m.ord(e.seq)), in.firstPush > e.deliveredAt), "C02/descending-without-late-arrival")
		}
	}
	// C02 per-call form: nothing smaller stays behind undelivered
	for _, o := range m.insts {
		if !o.delivered && o != in {
			vAssert(!(m.ord(o.seq) < m.ord(in.seq)), "C02/smaller-event-left-buffered")
			if m.inClose {
				// C19's own clause: Close delivers the buffered events in order
				vAssert(!(m.ord(o.seq) < m.ord(in.seq)), "C19/close-delivered-out-of-order")
			}
		}
	}
	// C03 ghost accounting. "In order" is the property's own roll-over rule: s comes after L when
	// the distance (s - L) mod 2^32 lies in [1, 2^24-1]; within one 2^24 window this is ord(s) > ord(L).
	d := in.seq - m.last
	inOrder := vAnd(m.have, vAnd(d != 0, d <= 1<<24-1))
	gap := vIf(inOrder, uint64(d-1), 0)
	m.expLost += gap
	m.last = uint32(vIf(vOr(!m.have, inOrder), uint64(in.seq), uint64(m.last)))
	m.have = true
	// C10 (iii): cause of delivery outside Close
	// number of undelivered events at the moment this one is evicted (callbacks are made in
	// eviction order, so this is the buffer size the eviction decision saw)
	liveNow := len(m.live())
	if !m.inClose && m.timeoutInf {
		vAssert(vOr(in.complete, liveNow > m.maxInFlight), "C10/delivered-without-cause")
		// the same fact seen from C19: with an effectively infinite timeout nothing is delivered for time
		vAssert(vOr(in.complete, liveNow > m.maxInFlight), "C19/flushed-although-timeout-effectively-infinite")
	}
	// C19: never delivered on account of time before the timeout has elapsed
	if !m.inClose && m.symClock {
		es, en := m.expiry(in)
		forTime := vAnd(!in.complete, !(liveNow > m.maxInFlight))
		nowK := vClockCount() - 1
		if nowK >= 0 {
			vAssert(vOr(!forTime, !vBefore(vClockSec(nowK), vClockNsec(nowK), es, en)), "C19/flushed-before-timeout")
			vAssert(vOr(!forTime, !vBefore(vClockSec(nowK), vClockNsec(nowK), es, en)), "C10/delivered-without-cause") // the third cause, seen from C10
		} else {
			vAssert(!forTime, "C19/flushed-before-timeout")
			vAssert(!forTime, "C10/delivered-without-cause")
		}
	}
	in.delivered = true
	in.deliveredAt = m.call
	m.nDeliveries++
}

func (m *vMon) EventsLost(n int) {
	vAssert(n > 0, "C03/non-positive-count")
	m.gotLost += uint64(int64(n))
}

const (
	vOpPush = iota
	vOpMaintain
	vOpPushNil
)

// beforeCall: with a symbolic clock the harness reads the clock itself just before each call.
func (m *vMon) beforeCall() {
	m.callStartK = -1
	if m.symClock {
		m.callStartK = vClockCount()
		_ = time.Now()
		m.clock0 = vClockCount()
	}
}

// afterCall runs the per-call oracles.
func (m *vMon) afterCall(kind int) {
	vAssert(m.gotLost == m.expLost, "C03/lost-count-differs-from-gaps")
	if m.inClose {
		vAssert(m.gotLost == m.expLost, "C19/loss-accounting-at-close")
	}
	m.gotLost, m.expLost = 0, 0
	lv := m.live()
	if kind == vOpPush {
		vAssert(len(lv) <= m.maxInFlight, "C10/more-than-maxInFlight-buffered")
		// the ord-smallest undelivered event is not complete
		for _, h := range lv {
			isHead := true
			for _, o := range lv {
				if o != h {
					isHead = vAnd(isHead, !(m.ord(o.seq) < m.ord(h.seq)))
				}
			}
			vAssert(vOr(!isHead, !h.complete), "C10/complete-event-left-at-head")
		}
	}
	// C19: a stale head is flushed by the first call made after its expiry. "After" is judged by
	// the harness's own clock reading taken just before the call (the implementation's readings
	// are not earlier), so a call that never looks at the clock does not escape.
	if m.symClock && (kind == vOpPush || kind == vOpMaintain) && m.callStartK >= 0 {
		fs, fn := vClockSec(m.callStartK), vClockNsec(m.callStartK)
		for _, h := range lv {
			if h.firstPush == m.call {
				continue // created during this very call
			}
			isHead := true
			for _, o := range lv {
				if o != h {
					isHead = vAnd(isHead, !(m.ord(o.seq) < m.ord(h.seq)))
				}
			}
			es, en := m.expiry(h)
			vAssert(vOr(!isHead, !vBefore(es, en, fs, fn)), "C19/stale-head-not-flushed")
		}
	}
	m.peakLive = len(lv)
	m.clock0 = vClockCount()
	m.call++
}

// VH_Reassembler drives k operations followed by Close (and a few post-Close calls).
func VH_Reassembler() {
	k := vParam("k", 3)
	maxInFlight := vParam("maxInFlight", 2)
	allowNil := vParam("nilpush", 0) != 0
	window := vParam("window", 1) != 0
	pinned := vParam("pin", 0) // 1: first seq is 0xFFFFFFFF; 2: some seq is 0

	m := &vMon{maxInFlight: maxInFlight, timeoutInf: true}
	m.base = vU32("base")
	if vParam("manyopen", 0) > 0 {
		// (a concrete base for the long scripted run: low, in the middle, and straddling the roll-over)
		m.base = []uint32{0x10, 0x7FFFFFF0, 0xFFFFFF80}[vChoose("cbase", 3)]
	}
	timeout := 1000000 * time.Hour
	switch vParam("timeout_mode", 0) {
	case 1:
		timeout, m.toSec, m.toNsec = -1*time.Second, -1, 0
	case 2:
		timeout, m.toSec, m.toNsec = 0, 0, 0
	case 3:
		timeout, m.toSec, m.toNsec = 5*time.Millisecond, 0, 5000000
	case 4:
		timeout, m.toSec, m.toNsec = 2*time.Second, 2, 0
	case 5:
		timeout, m.toSec, m.toNsec = -1500*time.Millisecond, -2, 500000000
	case 6:
		timeout = time.Duration(1<<63 - 1) // the largest Duration: still "never", not "always"
	case 7:
		timeout = 250 * 365 * 24 * time.Hour // now + timeout no longer fits an int64 of nanoseconds since 1970
	}
	if tm := vParam("timeout_mode", 0); tm != 0 && tm < 6 {
		m.symClock, m.timeoutInf = true, false
	}
	r, err := NewReassembler(maxInFlight, timeout, m)
	vAssert(err == nil && r != nil, "C19/new-reassembler-failed")
	if err != nil {
		return
	}
	nops := 2
	if allowNil {
		nops = 3
	}
	doPush := func(i int) {
		seq := vU32("seq")
		typ := vU16("typ")
		if na := vParam("alphabet", 0); na > 0 {
			// small alphabet, longer histories: sequence = base + one of `na` offsets, three record kinds
			seq = m.base + uint32(vChoose("seqoff", na))
			typ = []uint16{uint16(auparse.AUDIT_SYSCALL), uint16(auparse.AUDIT_PROCTITLE), uint16(auparse.AUDIT_EOE)}[vChoose("kind", 3)]
		}
		if vParam("plain", 0) != 0 {
			vAssume(typ == uint16(auparse.AUDIT_SYSCALL)) // a record that neither completes nor bypasses buffering
		}
		if window {
			vAssume(seq-m.base < 1<<24)
		}
		if pinned == 1 && i == 0 {
			vAssume(seq == 0xFFFFFFFF)
		}
		if pinned == 2 && i == 1 {
			vAssume(seq == 0)
		}
		// the header's timestamp is any instant: order, grouping and loss accounting go by sequence alone
		msg := &auparse.AuditMessage{RecordType: auparse.AuditMessageType(typ), Sequence: seq, Timestamp: time.Unix(int64(vU16("ts")), 0)}
		m.beforeCall()
		m.notePush(msg, typ, seq)
		r.PushMessage(msg)
		m.afterCall(vOpPush)
	}
	if sc := vParam("script", -1); sc >= 0 {
		// a fixed, longer history: lower-case letter = SYSCALL record of sequence base+(letter-'a'),
		// upper-case = its EOE, 'm' = Maintain; events that collect many records, interleaved
		script := []string{"ab" + "aaaaaaaaaa" + "bb", "abc" + "aaaaaaaaa" + "bbbbbbbbb" + "A" + "cB", "aaaaaaaaaaaaaaaaaaaa", "ab" + "aaaaaaaaaa" + "B" + "bb" + "A",
			// 4, 5: two batches of two events, the second one released from inside the first one's delivery
			// (the Stream pushes the EOE of c, or calls Maintain, while a and b are being handed over)
			"abcd" + "BD" + "A", "abcd" + "BDC" + "e" + "A"}[sc]
		if sc == 4 {
			m.hook = func() {
				msg := &auparse.AuditMessage{RecordType: auparse.AUDIT_EOE, Sequence: m.base + 2}
				m.notePush(msg, uint16(auparse.AUDIT_EOE), m.base+2)
				r.PushMessage(msg)
			}
		}
		if sc == 5 {
			m.hook = func() { r.Maintain() }
		}
		for i := 0; i < len(script); i++ {
			ch := script[i]
			switch {
			case ch == 'm':
				m.beforeCall()
				r.Maintain()
				m.afterCall(vOpMaintain)
			default:
				typ := uint16(auparse.AUDIT_SYSCALL)
				off := uint32(ch - 'a')
				if ch >= 'A' && ch <= 'Z' {
					typ, off = uint16(auparse.AUDIT_EOE), uint32(ch-'A')
				}
				seq := m.base + off
				msg := &auparse.AuditMessage{RecordType: auparse.AuditMessageType(typ), Sequence: seq}
				m.beforeCall()
				m.notePush(msg, typ, seq)
				r.PushMessage(msg)
				m.afterCall(vOpPush)
			}
		}
		k = 0
	}
	if n := vParam("manyopen", 0); n > 0 {
		// many events open at once under a large maxInFlight: n records of n distinct sequences, none of
		// them completing (every third one arrives out of order)
		for i := 0; i < n; i++ {
			off := uint32(i)
			if i%3 == 1 && i+1 < n {
				off = uint32(i + 1)
			} else if i%3 == 2 {
				off = uint32(i - 1)
			}
			seq := m.base + off
			msg := &auparse.AuditMessage{RecordType: auparse.AUDIT_SYSCALL, Sequence: seq}
			m.beforeCall()
			m.notePush(msg, uint16(auparse.AUDIT_SYSCALL), seq)
			r.PushMessage(msg)
			m.afterCall(vOpPush)
		}
		k = 0
	}
	forcePush := vParam("forcepush", 0)
	for i := 0; i < k; i++ {
		op := vOpPush
		if i >= forcePush {
			op = vChoose("op", nops)
		}
		switch op {
		case vOpPush:
			doPush(i)
		case vOpMaintain:
			m.beforeCall()
			err := r.Maintain()
			vAssert(err == nil, "C19/maintain-failed-before-close")
			m.afterCall(vOpMaintain)
		case vOpPushNil:
			m.beforeCall()
			r.PushMessage(nil)
			m.afterCall(vOpPushNil)
		}
	}
	m.inClose = true
	err = r.Close()
	vAssert(err == nil, "C19/first-close-failed")
	m.afterCall(vOpMaintain)
	for _, in := range m.insts {
		vAssert(in.delivered, "C01/not-delivered-by-close")
		vAssert(in.delivered, "C19/buffered-event-not-delivered-by-close")
	}
	// pushes after Close are not ruled out by the API; whatever they leave behind, the
	// later Maintain and Close deliver nothing
	for i := 0; i < vParam("postclose", 0); i++ {
		m.inClose = false
		doPush(k + i)
	}
	m.inClose = true
	// after Close: nothing more is delivered, Maintain and Close fail
	n := m.nDeliveries
	vAssert(r.Maintain() != nil, "C19/maintain-after-close-succeeded")
	vAssert(r.Close() != nil, "C19/second-close-succeeded")
	vAssert(m.nDeliveries == n, "C19/delivery-after-close")
	vAssert(m.gotLost == 0, "C19/loss-report-after-close")
}

// VH_ReassemblerNilStream: a Reassembler cannot be created without a Stream.
func VH_ReassemblerNilStream() {
	r, err := NewReassembler(int(vU8("mif")), time.Duration(vI64("timeout")), nil)
	vAssert(err != nil && r == nil, "C19/created-without-stream")
}

// ---- C01 through Push(typ, raw): the convenience entry point ------------------------------------

func init() { vEntries["VH_ReassemblerPush"] = VH_ReassemblerPush }

type vPushMon struct {
	texts     []string // raw text of every accepted non-EOE push, in push order
	seqs      []uint32
	delivered []int
	mixed     bool
	unknown   bool
	disorder  bool
	got       []*auparse.AuditMessage // delivered messages and the push each one belongs to
	gotIdx    []int
}

func (m *vPushMon) ReassemblyComplete(g []*auparse.AuditMessage) {
	last := -1
	for _, x := range g {
		if x.Sequence != g[0].Sequence {
			m.mixed = true
		}
		found := -1
		for i, t := range m.texts {
			if t == x.RawData && m.seqs[i] == x.Sequence {
				found = i
			}
		}
		if found < 0 {
			m.unknown = true
			continue
		}
		m.delivered[found]++
		m.got = append(m.got, x)
		m.gotIdx = append(m.gotIdx, found)
		if found < last {
			m.disorder = true
		}
		last = found
	}
}

func (m *vPushMon) EventsLost(int) {}

// VH_ReassemblerPush: k records go in through Push (record type symbolic, well-formed text with a
// sequence from a small set and a body unique to the push), then Close. Every record whose Push
// returned nil and that is not an EOE comes out exactly once, grouped and in push order.
func VH_ReassemblerPush() {
	k := vParam("k", 3)
	m := &vPushMon{}
	r, err := NewReassembler(vParam("maxInFlight", 2), 1000000*time.Hour, m)
	if err != nil {
		return
	}
	rdbuf := make([]byte, 64)
	for i := 0; i < k; i++ {
		typ := vU16("typ")
		seq := uint32(5 + vChoose("seq", 2))
		text := "audit(1490137971.011:" + string([]byte{'0' + byte(seq)}) + "): n=" + string([]byte{'a' + byte(i)})
		// logged before the call: a completing record is delivered from inside Push
		isEOE := typ == uint16(auparse.AUDIT_EOE)
		if !isEOE {
			m.texts = append(m.texts, text)
			m.seqs = append(m.seqs, seq)
			m.delivered = append(m.delivered, 0)
		}
		// the caller's read buffer is reused from one Push to the next (Push documents that it copies)
		n := copy(rdbuf, text)
		err := r.Push(auparse.AuditMessageType(typ), rdbuf[:n])
		if err == nil {
			vReach("C01/push-accepted")
		}
		for j := range rdbuf {
			rdbuf[j] = '#'
		}
		if err != nil && !isEOE {
			m.seqs[len(m.seqs)-1] = 0 // rejected: must never show up
			m.delivered[len(m.delivered)-1] = -1000
		}
	}
	r.Close()
	for i := range m.texts {
		if m.delivered[i] < 0 {
			vAssert(m.delivered[i] == -1000, "C01/delivered-something-not-pushed")
			continue
		}
		vAssert(m.delivered[i] >= 1, "C01/pushed-through-Push-but-never-delivered")
		vAssert(m.delivered[i] <= 1, "C01/delivered-twice")
	}
	vAssert(!m.mixed, "C01/mixed-sequence-in-group")
	vAssert(!m.unknown, "C01/delivered-something-not-pushed")
	vAssert(!m.disorder, "C01/group-is-not-exactly-the-pushed-records-in-order")
	// what was delivered is still the text that was pushed (Push copies; the caller's buffer has
	// been reused and overwritten since)
	for i, x := range m.got {
		vAssert(x.RawData == m.texts[m.gotIdx[i]], "C01/delivered-record-text-changed-later")
	}
}
