//go:build linux

// C11: the Reassembler under concurrent Push / Maintain / Close, with callbacks that may re-enter it.
// Threads are engine threads (vGo); every interleaving at synchronisation operations (mutex, atomics,
// thread start/exit, callback entry) is explored up to the stated preemption bound, and every heap
// access is checked for races with vector clocks.

package libaudit

import (
	"sync"

	"github.com/elastic/go-libaudit/v2/auparse"
)

func init() { vEntries["VH_Concurrent"] = VH_Concurrent }

type vCStream struct {
	mu        sync.Mutex
	r         *Reassembler
	reenter   int // 0 nothing, 1 Maintain, 2 Close, 3 PushMessage of a fresh record
	delivered map[*auparse.AuditMessage]int
	mixed     bool
	tick      int
	extra     *auparse.AuditMessage
	extraDone bool
	lostCalls int
}

func (s *vCStream) ReassemblyComplete(msgs []*auparse.AuditMessage) {
	vYield()
	s.mu.Lock()
	for _, m := range msgs {
		s.delivered[m]++
		if m.Sequence != msgs[0].Sequence {
			s.mixed = true
		}
	}
	re := s.reenter
	doExtra := re == 3 && !s.extraDone
	if doExtra {
		s.extraDone = true
	}
	s.mu.Unlock()
	switch re {
	case 1:
		s.r.Maintain()
	case 2:
		s.r.Close()
	case 3:
		if doExtra {
			s.r.PushMessage(s.extra)
		}
	}
}

func (s *vCStream) EventsLost(n int) {
	vYield()
	s.mu.Lock()
	s.lostCalls++
	re := s.reenter
	s.mu.Unlock()
	// the loss callback may re-enter the Reassembler as well
	switch re {
	case 1:
		s.r.Maintain()
	case 2:
		s.r.Close()
	}
}

func (s *vCStream) now() int {
	s.mu.Lock()
	s.tick++
	t := s.tick
	s.mu.Unlock()
	return t
}

type vPushRec struct {
	msg      *auparse.AuditMessage
	returned int
}

// thread programs: two letters per thread: p push, m Maintain, c Close
var vPrograms = [][]string{
	{"pp", "cm"}, {"pc", "pm"}, {"pm", "pc"}, {"pp", "pc"}, {"pc", "cp"}, {"cc", "pp"}, {"mp", "cm"},
	{"pp", "c", "m"}, {"pc", "p", "c"}, {"p", "p", "c"},
	{"ppp", "cm"}, {"ppc", "pm"},
	{"m", "pc"}, {"m", "pp"}, {"mm", "pc"}, {"m", "p", "c"},
	{"m", "cc"}, {"pm", "cc"}, {"mc", "pc"},
}

func VH_Concurrent() {
	prog := vPrograms[vParam("program", 0)]
	st := &vCStream{delivered: map[*auparse.AuditMessage]int{}, reenter: vParam("reenter", 0)}
	r, err := NewReassembler(vParam("maxInFlight", 1), 1000000*3600*1000000000, st)
	if err != nil {
		return
	}
	st.r = r
	st.extra = &auparse.AuditMessage{RecordType: 1300, Sequence: 9}
	pushes := make([][]vPushRec, len(prog))
	closeOK := make([]int, len(prog))
	closeInvoked := make([][]int, len(prog))
	closeWon := make([][]bool, len(prog))
	for ti := range prog {
		ti := ti
		ops := prog[ti]
		// data of the pushes is chosen before the threads start (choices are not schedule dependent)
		var msgs []*auparse.AuditMessage
		for i := 0; i < len(ops); i++ {
			if ops[i] == 'p' {
				seq := uint32(5 + []int{0, 1, 3}[vChoose("seq", vParam("nseq", 2))]) // nseq=3: a gap is possible (EventsLost fires)
				typ := []uint16{1300, 1327, 1320}[vChoose("typ", vParam("types", 2))]
				msgs = append(msgs, &auparse.AuditMessage{RecordType: auparse.AuditMessageType(typ), Sequence: seq})
			}
		}
		vGo(func() {
			k := 0
			for i := 0; i < len(ops); i++ {
				switch ops[i] {
				case 'p':
					m := msgs[k]
					k++
					r.PushMessage(m)
					pushes[ti] = append(pushes[ti], vPushRec{m, st.now()})
				case 'm':
					r.Maintain()
				case 'c':
					inv := st.now()
					e := r.Close()
					closeInvoked[ti] = append(closeInvoked[ti], inv)
					closeWon[ti] = append(closeWon[ti], e == nil)
					if e == nil {
						closeOK[ti]++
					}
				}
			}
		})
	}
	vJoin()
	nClose, nOK, winInv := 0, 0, 0
	for ti := range prog {
		nOK += closeOK[ti]
		for i, inv := range closeInvoked[ti] {
			nClose++
			if closeWon[ti][i] {
				winInv = inv
			}
		}
	}
	if st.reenter == 2 {
		// the callback may have closed it; then the counts of the threads' own calls say little
		vAssert(nOK <= 1, "C11/more-than-one-close-succeeded")
	} else if nClose > 0 {
		vAssert(nOK == 1, "C11/not-exactly-one-close-succeeded")
	}
	vAssert(!st.mixed, "C11/mixed-sequences-in-one-callback")
	for _, n := range st.delivered {
		vAssert(n <= 1, "C11/delivered-more-than-once")
	}
	if nOK == 1 && st.reenter != 2 {
		for ti := range prog {
			for _, p := range pushes[ti] {
				if p.msg.RecordType != 1320 && p.returned < winInv {
					vAssert(st.delivered[p.msg] == 1, "C11/push-returned-before-close-but-not-delivered")
				}
			}
		}
	}
	if st.extraDone && nOK == 0 && nClose == 0 {
		// nothing closed: the re-entrant push may legitimately still be buffered
		vReach("C11/extra-left-buffered")
	}
}
