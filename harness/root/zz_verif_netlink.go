//go:build linux

// Harness for the netlink transport (property C18). The socket syscalls are replaced, under the
// symbolic engine only, by the vSys* functions below (the engine routes syscall.Sendto /
// Recvfrom / Close to them). Natively these stubs are never called, so counterexamples of this
// harness are confirmed in the engine's concrete mode.

package libaudit

import (
	"errors"
	"sync"
	"syscall"
)

func init() {
	vEntries["VH_NetlinkSend"] = VH_NetlinkSend
	vEntries["VH_NetlinkSendConcurrent"] = VH_NetlinkSendConcurrent
	vEntries["VH_NetlinkReceive"] = VH_NetlinkReceive
	vEntries["VH_ParseAuditMessage"] = VH_ParseAuditMessage
}

type vDatagram struct {
	fd    int
	data  []byte
	flags int
	to    syscall.Sockaddr
}

var vNet struct {
	sent []vDatagram
	// scripted receive
	nr       int
	fill     []byte
	from     syscall.Sockaddr
	recvErr  error
	recvCall int
	gotFlags int
	closed   []int
	failType int // a Send whose header type equals this fails in sendto (0: none)
}

var vNetMu sync.Mutex

func vSysSendto(fd int, p []byte, flags int, to syscall.Sockaddr) error {
	// the kernel copies the datagram at some point during the call: a scheduling point first
	vYield()
	if vNet.failType != 0 && len(p) >= 6 && int(p[4])|int(p[5])<<8 == vNet.failType {
		return syscall.EAGAIN // nothing reaches the wire
	}
	d := vDatagram{fd: fd, data: append([]byte(nil), p...), flags: flags, to: to}
	vNetMu.Lock()
	vNet.sent = append(vNet.sent, d)
	vNetMu.Unlock()
	return nil
}

func vSysRecvfrom(fd int, p []byte, flags int) (int, syscall.Sockaddr, error) {
	vNet.recvCall++
	vNet.gotFlags = flags
	if vNet.recvErr != nil {
		return -1, nil, vNet.recvErr
	}
	copy(p, vNet.fill)
	return vNet.nr, vNet.from, nil
}

func vSysClose(fd int) error { vNet.closed = append(vNet.closed, fd); return nil }

func vCheckFrame(d vDatagram, typ, flags uint16, seq, pid uint32, payload []byte) {
	vAssert(len(d.data) == 16+len(payload), "C18/datagram-length")
	if len(d.data) != 16+len(payload) {
		return
	}
	vAssert(vGet32(d.data[0:]) == uint32(16+len(payload)), "C18/header-length-field")
	vAssert(vGet16(d.data[4:]) == typ, "C18/header-type")
	vAssert(vGet16(d.data[6:]) == flags, "C18/header-flags")
	vAssert(vGet32(d.data[8:]) == seq, "C18/header-sequence-differs-from-returned")
	vAssert(vGet32(d.data[12:]) == pid, "C18/header-port-id")
	for i := range payload {
		vAssert(d.data[16+i] == payload[i], "C18/payload-not-verbatim")
	}
	to, ok := d.to.(*syscall.SockaddrNetlink)
	vAssert(ok && to != nil, "C18/destination-not-netlink")
	if ok && to != nil {
		vAssert(to.Pid == 0 && to.Groups == 0, "C18/destination-not-the-kernel")
	}
	vAssert(d.fd == 7, "C18/wrong-socket")
}

// VH_NetlinkSend: M consecutive sends with symbolic header fields and payload.
func VH_NetlinkSend() {
	n := vParam("paylen", 4)
	m := vParam("sends", 1)
	vNet.sent = nil
	cpid := vU32("clientpid")
	c := &NetlinkClient{fd: 7, pid: cpid, seq: vU32("seq0")}
	var prev uint32
	for i := 0; i < m; i++ {
		typ, flags, pid := vU16("typ"), vU16("flags"), vU32("pid")
		if vChoose("pidzero", 2) == 1 {
			pid = 0
		}
		payload := vBytes("payload", n)
		if st := vParam("symtail", 0); st > 0 && n > st {
			// a long payload: concrete pattern, the last st bytes symbolic
			tail := vBytes("tail", st)
			payload = make([]byte, n)
			for j := range payload {
				payload[j] = byte(j*7 + 1)
			}
			copy(payload[n-st:], tail)
		}
		keep := append([]byte(nil), payload...)
		seq, err := c.Send(syscall.NetlinkMessage{Header: syscall.NlMsghdr{Type: typ, Flags: flags, Pid: pid, Len: vU32("len"), Seq: vU32("hseq")}, Data: payload})
		vAssert(err == nil, "C18/send-failed")
		vAssert(len(vNet.sent) == i+1, "C18/not-exactly-one-datagram-per-send")
		if len(vNet.sent) != i+1 {
			return
		}
		wantPid := uint32(vIf(pid == 0, uint64(cpid), uint64(pid)))
		vCheckFrame(vNet.sent[i], typ, flags, seq, wantPid, keep)
		if i > 0 {
			vAssert(seq == prev+1, "C18/sequence-not-increasing")
		}
		prev = seq
	}
}

// VH_NetlinkSendConcurrent: T goroutines x 2 sends on one client.
func VH_NetlinkSendConcurrent() {
	vNet.sent = nil
	vNet.failType = 0
	c := &NetlinkClient{fd: 7, pid: 99, seq: vU32("seq0")}
	threads := vParam("threads", 2)
	if vParam("failures", 0) != 0 {
		// one of the sends (or none) is refused by sendto
		if f := vChoose("fail", 2*threads+1); f > 0 {
			vNet.failType = 1000 + f - 1
		}
	}
	type sendRes struct {
		seq uint32
		ok  bool
	}
	res := make([][]sendRes, threads)
	for t := 0; t < threads; t++ {
		t := t
		vGo(func() {
			for i := 0; i < 2; i++ {
				seq, err := c.Send(syscall.NetlinkMessage{Header: syscall.NlMsghdr{Type: uint16(1000 + 2*t + i)}})
				res[t] = append(res[t], sendRes{seq, err == nil})
			}
		})
	}
	vJoin()
	ft := vNet.failType
	vNet.failType = 0
	// every sequence number returned by a successful Send is on the wire exactly once
	for t := 0; t < threads; t++ {
		for i, r := range res[t] {
			vAssert(r.ok == (1000+2*t+i != ft), "C18/send-error-not-reported")
			if !r.ok {
				continue
			}
			var n uint64
			for _, d := range vNet.sent {
				if len(d.data) >= 16 {
					n += vIf(vGet32(d.data[8:]) == r.seq, 1, 0) // counted without branching
				}
			}
			vAssert(n == 1, "C18/concurrent-returned-sequence-not-on-the-wire-once")
		}
	}
	var all []uint32
	for t := 0; t < threads; t++ {
		vAssert(len(res[t]) == 2, "C18/concurrent-send-lost")
		if len(res[t]) == 2 && res[t][0].ok && res[t][1].ok {
			// increasing per sender (wrap-around aside: distance below 2^31)
			vAssert(res[t][1].seq-res[t][0].seq < 1<<31 && res[t][1].seq != res[t][0].seq, "C18/concurrent-not-increasing-per-sender")
		}
		for _, r := range res[t] {
			if r.ok {
				all = append(all, r.seq)
			}
		}
	}
	for i := range all {
		for j := i + 1; j < len(all); j++ {
			vAssert(all[i] != all[j], "C18/concurrent-duplicate-sequence")
		}
	}
}

type vFailWriter struct{ n int }

func (w *vFailWriter) Write(p []byte) (int, error) { w.n++; return 0, errors.New("writer failed") }

type vCopyWriter struct{ got []byte }

func (w *vCopyWriter) Write(p []byte) (int, error) {
	w.got = append(w.got, p...)
	return len(p), nil
}

// VH_NetlinkReceive: datagram of symbolic length/content from a symbolic sender.
func VH_NetlinkReceive() {
	maxn := vParam("maxlen", 24)
	bufsz := vParam("bufsz", 64)
	nr := vLen("nr", maxn)
	if vParam("exact", -1) >= 0 {
		nr = vParam("exact", 0)
	}
	fill := vBytes("dgram", nr)
	vNet.nr, vNet.fill, vNet.recvErr, vNet.recvCall = nr, fill, nil, 0
	sender := vChoose("sender", 5)
	switch sender {
	case 0:
		vNet.from = &syscall.SockaddrNetlink{Family: syscall.AF_NETLINK, Pid: 0, Groups: vU32("groups")}
	case 1:
		p := vU32("senderpid")
		vAssume(p != 0)
		vNet.from = &syscall.SockaddrNetlink{Family: syscall.AF_NETLINK, Pid: p}
	case 2:
		vNet.from = &syscall.SockaddrUnix{Name: "/x"}
	case 3:
		vNet.from = nil
	case 4:
		vNet.recvErr = syscall.Errno(vU32("recverrno")&0xfff | 1)
	}
	var w *vCopyWriter
	var fw *vFailWriter
	c := &NetlinkClient{fd: 7, pid: 99, readBuf: make([]byte, bufsz)}
	switch vChoose("writer", 3) {
	case 1:
		w = &vCopyWriter{}
		c.respWriter = w
	case 2:
		fw = &vFailWriter{}
		c.respWriter = fw
	}
	parserCalls := 0
	var parserGot []byte
	nonBlocking := vBool("nonblocking")
	useClient := vChoose("via", 2) == 1 // 1: through AuditClient.Receive and the real audit parser
	var msgs []syscall.NetlinkMessage
	var raw *RawAuditMessage
	var err error
	if useClient {
		ac := &AuditClient{Netlink: c}
		raw, err = ac.Receive(nonBlocking)
	} else {
		msgs, err = c.Receive(nonBlocking, func(b []byte) ([]syscall.NetlinkMessage, error) {
			parserCalls++
			parserGot = append([]byte(nil), b...)
			return []syscall.NetlinkMessage{{Data: b}}, nil
		})
	}
	vAssert(vNet.recvCall == 1, "C18/not-exactly-one-recvfrom")
	vAssert((vNet.gotFlags&syscall.MSG_DONTWAIT != 0) == nonBlocking, "C18/nonblocking-flag")
	fromKernel := sender == 0
	switch {
	case sender == 4:
		vAssert(err != nil && msgs == nil && raw == nil && parserCalls == 0, "C18/recv-error-not-propagated")
		if err != nil {
			vAssert(errors.Is(err, vNet.recvErr), "C18/recv-error-not-propagated")
		}
	case nr < 16:
		vAssert(err != nil && msgs == nil && raw == nil && parserCalls == 0, "C18/short-datagram-accepted")
	case !fromKernel:
		vAssert(err != nil && msgs == nil && raw == nil && parserCalls == 0, "C18/foreign-sender-accepted")
		if w != nil {
			vAssert(len(w.got) == 0, "C18/foreign-sender-data-leaked-to-writer")
		}
	case fw != nil:
		vAssert(err != nil && msgs == nil && raw == nil && parserCalls == 0, "C18/writer-failure-not-propagated")
	default:
		vAssert(err == nil, "C18/kernel-datagram-rejected")
		if err != nil {
			return
		}
		if w != nil {
			vAssert(len(w.got) == nr, "C18/writer-copy-differs")
			for i := 0; i < nr && i < len(w.got); i++ {
				vAssert(w.got[i] == fill[i], "C18/writer-copy-differs")
			}
		}
		if useClient {
			vAssert(raw != nil, "C18/kernel-datagram-rejected")
			if raw == nil {
				return
			}
			vAssert(uint16(raw.Type) == vGet16(fill[4:]), "C18/type-changed")
			vAssert(len(raw.Data) == nr-16, "C18/payload-changed")
			for i := 0; i < len(raw.Data) && 16+i < nr; i++ {
				vAssert(raw.Data[i] == fill[16+i], "C18/payload-changed")
			}
		} else {
			vAssert(parserCalls == 1 && len(parserGot) == nr, "C18/parser-did-not-get-exactly-the-datagram")
			for i := 0; i < nr && i < len(parserGot); i++ {
				vAssert(parserGot[i] == fill[i], "C18/parser-did-not-get-exactly-the-datagram")
			}
		}
	}
}

// VH_ParseAuditMessage: the audit message parser on buffers of every length.
func VH_ParseAuditMessage() {
	n := vLen("n", vParam("maxlen", 40))
	b := vBytes("buf", n)
	orig := append([]byte(nil), b...)
	msgs, err := parseNetlinkAuditMessage(b)
	if n < 16 {
		vAssert(err != nil && len(msgs) == 0, "C18/parser-accepted-short-buffer")
		return
	}
	vAssert(err == nil && len(msgs) == 1, "C18/parser-rejected-sufficient-buffer")
	if err != nil || len(msgs) != 1 {
		return
	}
	h := msgs[0].Header
	vAssert(h.Len == vGet32(orig[0:]) && h.Type == vGet16(orig[4:]) && h.Flags == vGet16(orig[6:]) &&
		h.Seq == vGet32(orig[8:]) && h.Pid == vGet32(orig[12:]), "C18/parser-header-fields")
	vAssert(len(msgs[0].Data) == n-16, "C18/parser-payload")
	for i := range msgs[0].Data {
		vAssert(msgs[0].Data[i] == orig[16+i], "C18/parser-payload")
	}
}
