//go:build linux

// Simulated kernel for AuditClient (properties C08, C16, C17): implements NetlinkSendReceiver,
// plays a nondeterministic reply script per request and keeps its own record of what it decided,
// which is all the oracles read. No socket is ever opened.

package libaudit

import (
	"errors"
	"io"
	"syscall"
)

func init() {
	vEntries["VH_ClientCmd"] = VH_ClientCmd
	vEntries["VH_ClientRetry"] = VH_ClientRetry
	vEntries["VH_ClientSendFail"] = VH_ClientSendFail
	vEntries["VH_ClientSetters"] = VH_ClientSetters
	vEntries["VH_ClientHistory"] = VH_ClientHistory
	vEntries["VH_StatusWire"] = VH_StatusWire
	vEntries["VH_Constants"] = VH_Constants
}

const (
	vEvUnsolicited = iota // an audit record with header sequence 0
	vEvTransient          // Receive fails with EINTR or EAGAIN
	vEvAck                // NLMSG_ERROR carrying -errno for the request
	vEvForeign            // NLMSG_ERROR/errno 0 but for another sequence number
	vEvWrongType          // right sequence, but not an NLMSG_ERROR
	vEvShort              // NLMSG_ERROR with a payload too short to hold an errno
	vEvData               // a data reply (AUDIT_GET / LIST_RULES)
	vEvDone               // NLMSG_DONE
)

type vEvent struct {
	kind    int
	seq     uint32
	typ     uint16
	errno   uint32 // vEvAck
	eintr   bool   // vEvTransient
	payload []byte
	reqIdx  int
}

type vRequest struct {
	seq    uint32
	typ    uint16
	flags  uint16
	pid    uint32
	data   []byte
	acked  bool   // the script contains a well-formed ACK for this request ...
	errno  uint32 // ... with this errno
	status []byte // data the script supplies for a GET
	rules  [][]byte
	// consumption bookkeeping (C17)
	ackTaken int
}

type vSim struct {
	nextSeq  uint32
	reqs     []*vRequest
	queue    []vEvent
	buf      []byte // the single receive buffer, reused for every datagram
	closed   int
	starved  int // number of Receive calls made with nothing queued
	maxUnsol int
	maxTrans int
	plain    bool // no adversarial replies, no unsolicited records, no transient failures
	allowBad bool // allow foreign / wrong-type / short replies
	seqZero  bool // request number 0 allowed
	errAt    int  // with alwaysOK: the one request (by index) whose verdict is symbolic after all; -1: none
	mid      bool // transient failures and unsolicited records also between the ACK and the data, and between data messages
	recvs    int
	// sends: the failAt-th Send (0-based; -1 none) fails before anything reaches the kernel
	sendCalls   int
	failSendAt  int
	failedSends int
	// receives: the recvErrAt-th Receive (0-based; -1 none) fails with a non-transient errno
	recvErrAt int
	recvErrno syscall.Errno
	alwaysOK  bool // every request is acknowledged with errno 0 (long runs: no case split per request)
}

func newSim() *vSim {
	s := &vSim{buf: make([]byte, 16+64), maxUnsol: vParam("unsol", 1), maxTrans: vParam("trans", 1), allowBad: vParam("bad", 1) != 0, failSendAt: -1, recvErrAt: -1, errAt: -1, mid: vParam("mid", 0) != 0}
	s.nextSeq = vU32("seq0")
	s.seqZero = vParam("seqzero", 0) != 0 // the counter may pass through 0 (only in jobs without unsolicited records)
	if !s.seqZero {
		vAssume(s.nextSeq != 0)
	}
	return s
}

func vPut16(b []byte, v uint16) { b[0], b[1] = byte(v), byte(v>>8) }
func vPut32(b []byte, v uint32) { b[0], b[1], b[2], b[3] = byte(v), byte(v>>8), byte(v>>16), byte(v>>24) }
func vGet32(b []byte) uint32 {
	return uint32(b[0]) | uint32(b[1])<<8 | uint32(b[2])<<16 | uint32(b[3])<<24
}
func vGet16(b []byte) uint16 { return uint16(b[0]) | uint16(b[1])<<8 }

// Send numbers the request, records it and plans the kernel's answer.
func (s *vSim) Send(msg syscall.NetlinkMessage) (uint32, error) {
	s.sendCalls++
	if s.sendCalls-1 == s.failSendAt {
		s.failedSends++
		return 0, syscall.ENOBUFS
	}
	seq := s.nextSeq
	s.nextSeq++
	if !s.seqZero {
		vAssume(s.nextSeq != 0) // request number 0 is outside the domain (DESIGN.md, C08)
	}
	rq := &vRequest{seq: seq, typ: msg.Header.Type, flags: msg.Header.Flags, pid: msg.Header.Pid, data: append([]byte(nil), msg.Data...)}
	idx := len(s.reqs)
	s.reqs = append(s.reqs, rq)
	if s.plain {
		if s.alwaysOK && idx == s.errAt {
			s.planAck(rq, idx, vErrnoChoice())
		} else if s.alwaysOK {
			s.planAck(rq, idx, 0)
		} else {
			s.planAck(rq, idx, vErrnoChoice())
		}
		return seq, nil
	}
	// unsolicited records first
	for i, n := 0, vChoose("unsol", s.maxUnsol+1); i < n; i++ {
		s.queue = append(s.queue, vEvent{kind: vEvUnsolicited, seq: 0, typ: vU16("utyp"), payload: vBytes("upay", 4), reqIdx: idx})
	}
	for i, n := 0, vChoose("trans", s.maxTrans+1); i < n; i++ {
		s.queue = append(s.queue, vEvent{kind: vEvTransient, eintr: vBool("eintr"), reqIdx: idx})
	}
	nk := 1
	if s.allowBad {
		nk = 4
	}
	switch vChoose("reply", nk) {
	case 0:
		s.planAck(rq, idx, vErrnoChoice())
	case 1:
		fs := vU32("foreign")
		vAssume(fs != seq)
		vAssume(fs != 0)
		s.queue = append(s.queue, vEvent{kind: vEvForeign, seq: fs, typ: syscall.NLMSG_ERROR, reqIdx: idx})
	case 2:
		t := vU16("wrongtyp")
		vAssume(t != syscall.NLMSG_ERROR)
		s.queue = append(s.queue, vEvent{kind: vEvWrongType, seq: seq, typ: t, payload: vBytes("wpay", 4), reqIdx: idx})
	case 3:
		s.queue = append(s.queue, vEvent{kind: vEvShort, seq: seq, typ: syscall.NLMSG_ERROR, payload: vBytes("spay", vChoose("slen", 2)*3), reqIdx: idx})
	}
	return seq, nil
}

// vErrnoChoice: the kernel's verdict, 0 (success) or any errno up to MAX_ERRNO.
func vErrnoChoice() uint32 {
	e := vU32("errno")
	vAssume(e <= 4095)
	return e
}

func (s *vSim) planAck(rq *vRequest, idx int, e uint32) {
	rq.acked, rq.errno = true, e
	s.queue = append(s.queue, vEvent{kind: vEvAck, seq: rq.seq, typ: syscall.NLMSG_ERROR, errno: e, reqIdx: idx})
	if e != 0 {
		return
	}
	interlude := func() {
		if !s.mid {
			return
		}
		switch vChoose("mid", 3) {
		case 1:
			s.queue = append(s.queue, vEvent{kind: vEvTransient, eintr: vBool("mideintr"), reqIdx: idx})
		case 2:
			s.queue = append(s.queue, vEvent{kind: vEvUnsolicited, seq: 0, typ: vU16("midtyp"), payload: vBytes("midpay", 4), reqIdx: idx})
		}
	}
	switch rq.typ {
	case AuditGet:
		n := 32 + 4*vChoose("statuslen", 4) // 32, 36, 40, 44 bytes
		rq.status = vBytes("status", n)
		interlude()
		s.queue = append(s.queue, vEvent{kind: vEvData, seq: rq.seq, typ: AuditGet, payload: rq.status, reqIdx: idx})
	case 1013: // AUDIT_LIST_RULES
		for i, n := 0, vChoose("nrules", 3); i < n; i++ {
			p := vBytes("rule", 3)
			rq.rules = append(rq.rules, p)
			interlude()
			s.queue = append(s.queue, vEvent{kind: vEvData, seq: rq.seq, typ: 1013, payload: p, reqIdx: idx})
		}
		interlude()
		s.queue = append(s.queue, vEvent{kind: vEvDone, seq: rq.seq, typ: syscall.NLMSG_DONE, reqIdx: idx})
	}
}

func (s *vSim) Receive(nonBlocking bool, p NetlinkParser) ([]syscall.NetlinkMessage, error) {
	s.recvs++
	if s.recvs-1 == s.recvErrAt {
		return nil, s.recvErrno // the socket reports a hard error; what is queued stays queued
	}
	if len(s.queue) == 0 {
		s.starved++
		return nil, syscall.EAGAIN
	}
	ev := s.queue[0]
	s.queue = s.queue[1:]
	if ev.kind == vEvTransient {
		if ev.eintr {
			return nil, syscall.EINTR
		}
		return nil, syscall.EAGAIN
	}
	if ev.kind == vEvAck {
		s.reqs[ev.reqIdx].ackTaken++
	}
	// build the datagram in the one reused buffer and hand it to the caller's parser
	b := s.buf
	payload := ev.payload
	if ev.kind == vEvAck || ev.kind == vEvForeign {
		payload = make([]byte, 20)
		vPut32(payload, uint32(-int32(ev.errno)))
	}
	n := 16 + len(payload)
	vPut32(b[0:], uint32(n))
	vPut16(b[4:], ev.typ)
	vPut16(b[6:], 0)
	vPut32(b[8:], ev.seq)
	vPut32(b[12:], 0)
	copy(b[16:], payload)
	return p(b[:n])
}

func (s *vSim) Close() error { s.closed++; return nil }

// last returns the most recent request.
func (s *vSim) last() *vRequest {
	if len(s.reqs) == 0 {
		return nil
	}
	return s.reqs[len(s.reqs)-1]
}

// vCheckVerdict is the C08 oracle for one command that was the n-th request.
func vCheckVerdict(s *vSim, rq *vRequest, err error, needsData bool, method int) {
	ok := rq.acked && rq.errno == 0
	if ok {
		vAssert(err == nil, "C08/kernel-said-yes-but-error-returned")
	} else {
		vAssert(err != nil, "C08/nil-although-kernel-did-not-acknowledge")
	}
	if rq.acked && rq.errno != 0 && err != nil {
		if method == vmAddRule && rq.errno == uint32(syscall.EEXIST) {
			return // documented as a plain "rule exists"
		}
		vAssert(errors.Is(err, syscall.Errno(rq.errno)), "C08/error-does-not-identify-errno")
	}
}

const (
	vmGetStatus = iota
	vmGetRules
	vmAddRule
	vmDeleteRule
	vmDeleteRules
	vmSetEnabled
	vmSetImmutable
	vmSetFailure
	vmSetRateLimit
	vmSetBacklogLimit
	vmSetBacklogWaitTime
	vmSetPID
	vmCount
)

// vRunMethod issues one client command and applies the C08 oracle.
func vRunMethod(c *AuditClient, s *vSim, method int) {
	first := len(s.reqs)
	defer func() {
		// a command that answers without asking the kernel shows up as an index panic below: name it
		if len(s.reqs) == first {
			if p := recover(); p != nil {
				vAssert(false, "C08/no-request-reached-the-kernel")
			}
		}
	}()
	switch method {
	case vmGetStatus:
		st, err := c.GetStatus()
		rq := s.reqs[first]
		vCheckVerdict(s, rq, err, true, method)
		if err == nil {
			vAssert(st != nil, "C08/nil-status-without-error")
			if st != nil {
				vCheckStatus(st, rq.status, "C08/status-differs-from-kernel-bytes")
			}
		} else {
			vAssert(st == nil, "C08/status-returned-with-error")
		}
	case vmGetRules:
		rules, err := c.GetRules()
		rq := s.reqs[first]
		vCheckVerdict(s, rq, err, true, method)
		if err == nil {
			same := len(rules) == len(rq.rules)
			if same {
				for i := range rules {
					vAssert(len(rules[i]) == len(rq.rules[i]), "C08/rules-differ-from-kernel-payloads")
					for k := 0; k < len(rules[i]) && k < len(rq.rules[i]); k++ {
						vAssert(rules[i][k] == rq.rules[i][k], "C08/rules-differ-from-kernel-payloads")
					}
				}
			}
			vAssert(same, "C08/rules-differ-from-kernel-payloads")
		}
	case vmAddRule:
		err := c.AddRule(vBytes("rulebytes", 4))
		vCheckVerdict(s, s.reqs[first], err, false, method)
	case vmDeleteRule:
		err := c.DeleteRule(vBytes("rulebytes", 4))
		rq := s.reqs[first]
		if vKF("C08-deleterule-ignores-ack") {
			ok := rq.acked && rq.errno == 0
			if ok {
				vAssert(err == nil, "C08/kernel-said-yes-but-error-returned")
			} else if !rq.acked {
				// the carve-out covers only a well-formed ACK whose errno is ignored
				vKnown("C08-deleterule-ignores-ack", err != nil)
			} else {
				vKnown("C08-deleterule-ignores-ack", err != nil)
			}
		} else {
			vCheckVerdict(s, rq, err, false, method)
		}
	case vmDeleteRules:
		n, err := c.DeleteRules()
		// every request of the call must have been acknowledged with 0 for a nil result
		allOK := true
		for _, rq := range s.reqs[first:] {
			if !(rq.acked && rq.errno == 0) {
				allOK = false
			}
		}
		if allOK {
			vAssert(err == nil, "C08/kernel-said-yes-but-error-returned")
			vAssert(n == len(s.reqs[first].rules), "C08/deleterules-count")
			vAssert(len(s.reqs)-first == 1+len(s.reqs[first].rules), "C08/deleterules-request-count")
		} else {
			vAssert(err != nil, "C08/nil-although-kernel-did-not-acknowledge")
		}
	case vmSetEnabled:
		err := c.SetEnabled(vBool("enabled"), WaitForReply)
		vCheckVerdict(s, s.reqs[first], err, false, -1)
	case vmSetImmutable:
		err := c.SetImmutable(WaitForReply)
		vCheckVerdict(s, s.reqs[first], err, false, -1)
	case vmSetFailure:
		err := c.SetFailure(FailureMode(vU32("fm")), WaitForReply)
		vCheckVerdict(s, s.reqs[first], err, false, -1)
	case vmSetRateLimit:
		err := c.SetRateLimit(vU32("rate"), WaitForReply)
		vCheckVerdict(s, s.reqs[first], err, false, -1)
	case vmSetBacklogLimit:
		err := c.SetBacklogLimit(vU32("limit"), WaitForReply)
		vCheckVerdict(s, s.reqs[first], err, false, -1)
	case vmSetBacklogWaitTime:
		err := c.SetBacklogWaitTime(vI32("wait"), WaitForReply)
		vCheckVerdict(s, s.reqs[first], err, false, -1)
	case vmSetPID:
		err := c.SetPID(WaitForReply)
		vCheckVerdict(s, s.reqs[first], err, false, -1)
	}
}


// vCheckStatus compares a decoded status with the kernel's bytes at the UAPI offsets.
func vCheckStatus(st *AuditStatus, b []byte, label string) {
	word := func(i int) uint32 {
		if 4*i+4 <= len(b) {
			return vGet32(b[4*i:])
		}
		return 0
	}
	vAssert(uint32(st.Mask) == word(0), label)
	vAssert(st.Enabled == word(1), label)
	vAssert(st.Failure == word(2), label)
	vAssert(st.PID == word(3), label)
	vAssert(st.RateLimit == word(4), label)
	vAssert(st.BacklogLimit == word(5), label)
	vAssert(st.Lost == word(6), label)
	vAssert(st.Backlog == word(7), label)
	vAssert(st.FeatureBitmap == word(8), label)
	vAssert(st.BacklogWaitTime == word(9), label)
	vAssert(st.BacklogWaitTimeActual == word(10), label)
}

// VH_ClientCmd: one or two commands against the simulated kernel.
func VH_ClientCmd() {
	s := newSim()
	c := &AuditClient{Netlink: s}
	m1 := vParam("method", 0)
	vRunMethod(c, s, m1)
	if m2 := vParam("method2", -1); m2 >= 0 {
		// leftovers of a failed first command must not be mistaken for the second one's reply:
		// drop what the kernel still had queued for the first request (a client would drain it)
		if vParam("drain", 1) != 0 {
			s.queue = nil
		}
		vRunMethod(c, s, m2)
	}
}

// VH_ClientSendFail: one Send of the command fails (nothing reaches the kernel): the command
// reports an error; it neither succeeds nor hands out data.
func VH_ClientSendFail() {
	s := newSim()
	s.plain = true
	c := &AuditClient{Netlink: s}
	method := vChoose("method", vmCount)
	if vParam("recvfail", 0) != 0 {
		// instead: one of the first three receives fails with a hard errno
		s.recvErrAt = vChoose("recvfailat", 3)
		s.recvErrno = []syscall.Errno{syscall.ENOBUFS, syscall.EBADF}[vChoose("recverrno", 2)]
	} else {
		s.failSendAt = vChoose("failat", 3) // DeleteRules sends 1 + one per rule
	}
	var err error
	switch method {
	case vmGetStatus:
		var st *AuditStatus
		st, err = c.GetStatus()
		vAssert(s.failedSends == 0 || st == nil, "C08/status-returned-although-send-failed")
	case vmGetRules:
		var rules [][]byte
		rules, err = c.GetRules()
		vAssert(s.failedSends == 0 || len(rules) == 0, "C08/rules-returned-although-send-failed")
	case vmAddRule:
		err = c.AddRule(vBytes("rulebytes", 4))
	case vmDeleteRule:
		err = c.DeleteRule(vBytes("rulebytes", 4))
	case vmDeleteRules:
		_, err = c.DeleteRules()
	case vmSetEnabled:
		err = c.SetEnabled(vBool("enabled"), WaitForReply)
	case vmSetImmutable:
		err = c.SetImmutable(WaitForReply)
	case vmSetFailure:
		err = c.SetFailure(FailureMode(vU32("fm")), WaitForReply)
	case vmSetRateLimit:
		err = c.SetRateLimit(vU32("rate"), WaitForReply)
	case vmSetBacklogLimit:
		err = c.SetBacklogLimit(vU32("limit"), WaitForReply)
	case vmSetBacklogWaitTime:
		err = c.SetBacklogWaitTime(vI32("wait"), WaitForReply)
	case vmSetPID:
		err = c.SetPID(WaitForReply)
	}
	if s.failedSends > 0 {
		vReach("C08/send-failed")
		vAssert(err != nil, "C08/nil-although-send-failed")
	} else if s.recvErrAt >= 0 && s.recvs > s.recvErrAt {
		// hard receive errors are outside the property's robustness clause (it names EINTR/EAGAIN):
		// giving up and reading on are both fine, but success is never reported against the kernel
		vReach("C08/receive-failed")
		allOK := len(s.reqs) > 0
		for _, rq := range s.reqs {
			if !(rq.acked && rq.errno == 0) {
				allOK = false
			}
		}
		vAssert(err != nil || allOK, "C08/nil-although-kernel-did-not-acknowledge")
	} else {
		allOK := true
		for _, rq := range s.reqs {
			if !(rq.acked && rq.errno == 0) {
				allOK = false
			}
		}
		vAssert((err == nil) == allOK, "C08/verdict-differs-when-no-send-failed")
	}
}

// VH_ClientRetry: exactly j consecutive transient failures before the reply.
func VH_ClientRetry() {
	s := newSim()
	s.plain = true
	c := &AuditClient{Netlink: s}
	j := vParam("j", 9)
	pattern := vParam("pattern", 0) // 0 all EINTR, 1 all EAGAIN, 2 alternating
	fails := func(n int) {
		for i := 0; i < n; i++ {
			s.queue = append(s.queue, vEvent{kind: vEvTransient, eintr: pattern == 0 || (pattern == 2 && i%2 == 0)})
		}
	}
	records := func(n int) {
		for i := 0; i < n; i++ {
			s.queue = append(s.queue, vEvent{kind: vEvUnsolicited, seq: 0, typ: vU16("utyp"), payload: vBytes("upay", 2)})
		}
	}
	// unsolicited records and runs of transient failures in front of the reply: every run of
	// failures is at most 9 long unless j itself is 10
	records(vParam("r1", 0))
	fails(j)
	records(vParam("r2", 0))
	fails(vParam("j2", 0))
	records(vParam("r3", 0))
	err := c.SetEnabled(true, WaitForReply)
	rq := s.reqs[0]
	if j <= 9 {
		vCheckVerdict(s, rq, err, false, -1)
	} else {
		vAssert(err != nil, "C08/ten-transient-failures-not-an-error")
	}
}

// ---- C16: setters, constants, wire format ---------------------------------------------

const (
	vUAPI_AUDIT_GET                         = 1000
	vUAPI_AUDIT_SET                         = 1001
	vUAPI_STATUS_ENABLED                    = 0x0001
	vUAPI_STATUS_FAILURE                    = 0x0002
	vUAPI_STATUS_PID                        = 0x0004
	vUAPI_STATUS_RATE_LIMIT                 = 0x0008
	vUAPI_STATUS_BACKLOG_LIMIT              = 0x0010
	vUAPI_STATUS_BACKLOG_WAIT_TIME          = 0x0020
	vUAPI_STATUS_LOST                       = 0x0040
	vUAPI_FEATURE_BITMAP_BACKLOG_LIMIT      = 0x00000001
	vUAPI_FEATURE_BITMAP_BACKLOG_WAIT_TIME  = 0x00000002
	vUAPI_FEATURE_BITMAP_EXECUTABLE_PATH    = 0x00000004
	vUAPI_FEATURE_BITMAP_EXCLUDE_EXTEND     = 0x00000008
	vUAPI_FEATURE_BITMAP_SESSIONID_FILTER   = 0x00000010
	vUAPI_FEATURE_BITMAP_LOST_RESET         = 0x00000020
	vUAPI_FAIL_SILENT                       = 0
	vUAPI_FAIL_PRINTK                       = 1
	vUAPI_FAIL_PANIC                        = 2
	vNLM_F_REQUEST                          = 1
	vNLM_F_ACK                              = 4
	vStatusWords                            = 11 // struct audit_status, 44 bytes (v5.9 UAPI: incl. backlog_wait_time_actual)
	vStatusMinBytes                         = 32 // 2.6.32: up to and including backlog
)

// vCheckSetRequest decodes a captured AUDIT_SET request at fixed offsets.
func vCheckSetRequest(rq *vRequest, maskBit uint32, wordIdx int, value uint32) {
	vAssert(rq != nil, "C16/setter-sent-no-request")
	if rq == nil {
		return
	}
	vAssert(rq.typ == vUAPI_AUDIT_SET, "C16/set-request-type")
	vAssert(rq.flags == vNLM_F_REQUEST|vNLM_F_ACK, "C16/set-request-flags")
	vAssert(len(rq.data) == 4*vStatusWords, "C16/set-payload-size")
	if len(rq.data) != 4*vStatusWords {
		return
	}
	vAssert(vGet32(rq.data[0:]) == maskBit, "C16/mask-bit")
	for i := 1; i < vStatusWords; i++ {
		w := vGet32(rq.data[4*i:])
		if i == wordIdx {
			vAssert(w == value, "C16/value-not-in-its-field")
		} else {
			vAssert(w == 0, "C16/other-field-not-zero")
		}
	}
}

func VH_ClientSetters() {
	s := newSim()
	s.plain = true
	c := &AuditClient{Netlink: s}
	wm := WaitForReply
	if vChoose("waitmode", 2) == 1 {
		wm = NoWait
	}
	if vParam("recvfail", 0) != 0 {
		// one of the first receives fails with an errno that is not EINTR/EAGAIN
		s.recvErrAt = vChoose("recvfailat", 2)
		s.recvErrno = []syscall.Errno{syscall.ENOBUFS, syscall.EBADF, syscall.ECONNREFUSED}[vChoose("recverrno", 3)]
	}
	pre := 0
	var keptStatus *AuditStatus
	var keptBytes []byte
	if vParam("afterget", 0) != 0 {
		// a status query first (the kernel answers with 32, 36, 40 or 44 bytes): what is sent afterwards
		// does not depend on it
		keptStatus, _ = c.GetStatus()
		if len(s.reqs) > 0 {
			keptBytes = append([]byte(nil), s.reqs[0].status...)
		}
		pre = len(s.reqs)
	}
	if n := vParam("afternowait", 0); n > 0 {
		// setters that did not wait come first, and nobody collected their ACKs (the kernel's verdict on
		// each is symbolic): the command under test still sends its own request, whatever it returns
		for i := 0; i < n; i++ {
			switch vChoose("nowaitkind", 4) {
			case 0:
				c.SetBacklogWaitTime(vI32("prewait"), NoWait)
			case 1:
				c.SetEnabled(vBool("preenabled"), NoWait)
			case 2:
				c.SetImmutable(NoWait) // whether the kernel accepted the lock is not known to the client
			case 3:
				c.SetFailure(FailureMode(vU32("prefm")), NoWait)
			}
		}
		vAssert(len(s.reqs) == pre+n, "C16/exactly-one-request")
		pre = len(s.reqs)
	}
	defer func() {
		// the status handed out earlier is still what the kernel sent then, whatever was received since
		if keptStatus != nil && len(keptBytes) > 0 {
			vCheckStatus(keptStatus, keptBytes, "C16/status-changed-by-a-later-receive")
		}
	}()
	// the request the command under test put on the wire: exactly one new entry in the kernel's log
	sent := func() *vRequest {
		if len(s.reqs) != pre+1 {
			vAssert(false, "C16/exactly-one-request")
			return nil
		}
		return s.reqs[pre]
	}
	switch vChoose("setter", 9) {
	case 8:
		// GetStatusAsync: AUDIT_GET, ACK requested only if asked for, the Send's sequence number returned
		ack := vBool("requireack")
		seq, err := c.GetStatusAsync(ack)
		rq := sent()
		vAssert(rq != nil && err == nil, "C16/setter-sent-no-request")
		if rq != nil {
			vAssert(rq.typ == vUAPI_AUDIT_GET, "C16/get-request-type")
			vAssert(rq.flags == uint16(vNLM_F_REQUEST|vIf(ack, vNLM_F_ACK, 0)), "C16/get-request-flags")
			vAssert(len(rq.data) == 0, "C16/get-request-payload")
			vAssert(seq == rq.seq, "C16/async-sequence-number")
		}
	case 0:
		en := vBool("enabled")
		c.SetEnabled(en, wm)
		vCheckSetRequest(sent(), vUAPI_STATUS_ENABLED, 1, uint32(vIf(en, 1, 0)))
	case 1:
		c.SetImmutable(wm)
		vCheckSetRequest(sent(), vUAPI_STATUS_ENABLED, 1, 2)
	case 2:
		fm := vU32("fm")
		c.SetFailure(FailureMode(fm), wm)
		vCheckSetRequest(sent(), vUAPI_STATUS_FAILURE, 2, fm)
	case 3:
		c.SetPID(wm)
		rq := sent()
		if rq != nil && len(rq.data) >= 16 {
			vCheckSetRequest(rq, vUAPI_STATUS_PID, 3, vGet32(rq.data[12:]))
			vAssert(vGet32(rq.data[12:]) != 0, "C16/setpid-sends-zero")
		} else {
			vCheckSetRequest(rq, vUAPI_STATUS_PID, 3, 0)
		}
	case 4:
		v := vU32("rate")
		c.SetRateLimit(v, wm)
		vCheckSetRequest(sent(), vUAPI_STATUS_RATE_LIMIT, 4, v)
	case 5:
		v := vU32("limit")
		c.SetBacklogLimit(v, wm)
		vCheckSetRequest(sent(), vUAPI_STATUS_BACKLOG_LIMIT, 5, v)
	case 6:
		v := vI32("wait")
		c.SetBacklogWaitTime(v, wm)
		vCheckSetRequest(sent(), vUAPI_STATUS_BACKLOG_WAIT_TIME, 9, uint32(v))
	case 7:
		// GetStatus sends AUDIT_GET with REQUEST|ACK and no payload
		c.GetStatus()
		rq := sent()
		if rq == nil {
			return
		}
		vAssert(rq.typ == vUAPI_AUDIT_GET, "C16/get-request-type")
		vAssert(rq.flags == vNLM_F_REQUEST|vNLM_F_ACK, "C16/get-request-flags")
		vAssert(len(rq.data) == 0, "C16/get-request-payload")
	}
	vAssert(len(s.reqs) == pre+1, "C16/exactly-one-request")
}

// VH_Constants: exported numbers equal the UAPI header.
func VH_Constants() {
	vAssert(AuditGet == vUAPI_AUDIT_GET && AuditSet == vUAPI_AUDIT_SET, "C16/get-set-message-types")
	vAssert(uint32(SilentOnFailure) == vUAPI_FAIL_SILENT, "C16/failure-mode-silent")
	if vKF("C16-failure-mode-constants") {
		vKnown("C16-failure-mode-constants", uint32(LogOnFailure) == vUAPI_FAIL_PRINTK && uint32(PanicOnFailure) == vUAPI_FAIL_PANIC)
	} else {
		vAssert(uint32(LogOnFailure) == vUAPI_FAIL_PRINTK, "C16/failure-mode-log")
		vAssert(uint32(PanicOnFailure) == vUAPI_FAIL_PANIC, "C16/failure-mode-panic")
	}
	vAssert(AuditStatusEnabled == vUAPI_STATUS_ENABLED && AuditStatusFailure == vUAPI_STATUS_FAILURE &&
		AuditStatusPID == vUAPI_STATUS_PID && AuditStatusRateLimit == vUAPI_STATUS_RATE_LIMIT &&
		AuditStatusBacklogLimit == vUAPI_STATUS_BACKLOG_LIMIT && AuditStatusBacklogWaitTime == vUAPI_STATUS_BACKLOG_WAIT_TIME &&
		AuditStatusLost == vUAPI_STATUS_LOST, "C16/status-mask-bits")
	vAssert(AuditFeatureBitmapBacklogLimit == vUAPI_FEATURE_BITMAP_BACKLOG_LIMIT &&
		AuditFeatureBitmapBacklogWaitTime == vUAPI_FEATURE_BITMAP_BACKLOG_WAIT_TIME &&
		AuditFeatureBitmapExecutablePath == vUAPI_FEATURE_BITMAP_EXECUTABLE_PATH &&
		AuditFeatureBitmapExcludeExtend == vUAPI_FEATURE_BITMAP_EXCLUDE_EXTEND &&
		AuditFeatureBitmapSessionIDFilter == vUAPI_FEATURE_BITMAP_SESSIONID_FILTER &&
		AuditFeatureBitmapLostReset == vUAPI_FEATURE_BITMAP_LOST_RESET, "C16/feature-bits")
}

// VH_StatusWire: FromWireFormat on buffers of every length with arbitrary contents.
func VH_StatusWire() {
	maxLen := vParam("maxlen", 64)
	n := vLen("buflen", maxLen)
	if vParam("long", 0) != 0 {
		n = 100
	}
	buf := vBytes("buf", n)
	orig := append([]byte(nil), buf...)
	var st AuditStatus
	// receiver pre-filled with garbage
	st.Mask, st.Enabled, st.Failure, st.PID = AuditStatusMask(vU32("g0")), vU32("g1"), vU32("g2"), vU32("g3")
	st.RateLimit, st.BacklogLimit, st.Lost, st.Backlog = vU32("g4"), vU32("g5"), vU32("g6"), vU32("g7")
	st.FeatureBitmap, st.BacklogWaitTime, st.BacklogWaitTimeActual = vU32("g8"), vU32("g9"), vU32("g10")
	err := st.FromWireFormat(buf)
	if n < vStatusMinBytes {
		vAssert(err != nil, "C16/short-buffer-accepted")
		if err != nil {
			vAssert(errors.Is(err, io.ErrUnexpectedEOF), "C16/short-buffer-wrong-error")
		}
		return
	}
	vAssert(err == nil, "C16/sufficient-buffer-rejected")
	if err != nil {
		return
	}
	// word i = LE bytes 4i..4i+3 for words the buffer reaches completely, partially covered words
	// take the covered bytes and zero for the rest, 0 beyond; trailing bytes ignored
	words := []uint32{uint32(st.Mask), st.Enabled, st.Failure, st.PID, st.RateLimit, st.BacklogLimit, st.Lost, st.Backlog,
		st.FeatureBitmap, st.BacklogWaitTime, st.BacklogWaitTimeActual}
	for i, w := range words {
		var exp uint32
		for k := 0; k < 4; k++ {
			if 4*i+k < n {
				exp |= uint32(orig[4*i+k]) << (8 * k)
			}
		}
		vAssert(w == exp, "C16/decoded-word-differs")
	}
	for i := range buf {
		vAssert(buf[i] == orig[i], "C16/input-buffer-modified")
	}
}

// ---- C17: ACK bookkeeping, Close, returned data -------------------------------------------

// VH_ClientHistory: histories of NoWait / WaitForReply operations, WaitForPendingACKs, GetRules, Close.
func VH_ClientHistory() {
	s := newSim()
	s.plain = true
	c := &AuditClient{Netlink: s}
	k := vParam("k", 3)
	var pending []*vRequest // NoWait requests whose ACK has not been consumed, in order
	var keptRules [][]byte
	var keptFrom *vRequest
	setPID := false
	closes := 0
	for i := 0; i < k; i++ {
		op := vChoose("op", 7)
		before := len(s.reqs)
		switch op {
		case 0: // a setter without waiting
			if closes > 0 {
				continue
			}
			if vParam("sendfail", 0) != 0 && vChoose("sendfails", 2) == 1 {
				// this Send fails: an error now, and no ACK is ever awaited for it
				s.failSendAt = s.sendCalls
				err := c.SetEnabled(vBool("enabled"), NoWait)
				s.failSendAt = -1
				_ = err // (whether the failure is reported is C08's subject, and only for WaitForReply)
				vAssert(len(s.reqs) == before, "C17/harness-request-log")
				continue
			}
			err := c.SetEnabled(vBool("enabled"), NoWait)
			vAssert(err == nil, "C17/nowait-send-failed")
			pending = append(pending, s.last())
		case 1: // SetPID without waiting
			if closes > 0 {
				continue
			}
			err := c.SetPID(NoWait)
			vAssert(err == nil, "C17/nowait-send-failed")
			setPID = true
			pending = append(pending, s.last())
		case 2: // a setter that waits (domain: only when no ACK is outstanding)
			if len(pending) > 0 || closes > 0 {
				continue
			}
			err := c.SetRateLimit(vU32("rate"), WaitForReply)
			vCheckVerdictC17(s.last(), err)
		case 6: // SetPID that waits; the kernel may refuse it (symbolic errno). SetPID was used all the
			// same: Close still has a PID to clear (the request reached the kernel, which may have
			// registered the PID whatever the client made of the reply)
			if len(pending) > 0 || closes > 0 {
				continue
			}
			err := c.SetPID(WaitForReply)
			vCheckVerdictC17(s.last(), err)
			setPID = true
		case 3: // WaitForPendingACKs
			if closes > 0 {
				continue
			}
			starved := s.starved
			err := c.WaitForPendingACKs()
			// expected: consume in order up to and including the first failing ACK
			cut := len(pending)
			var firstErr uint32
			for j, rq := range pending {
				if rq.errno != 0 {
					cut, firstErr = j+1, rq.errno
					break
				}
			}
			if vKF("C17-pending-acks-never-trimmed") && len(pending) > 0 && pending[0].ackTaken > 0 {
				// recorded defect: ACKs consumed by an earlier call are waited for again
				vKnown("C17-pending-acks-never-trimmed", false)
				return
			}
			for j, rq := range pending {
				if j < cut {
					vAssert(rq.ackTaken == 1, "C17/ack-not-consumed-exactly-once")
				} else {
					vAssert(rq.ackTaken == 0, "C17/ack-consumed-after-an-error")
				}
			}
			if firstErr == 0 {
				vAssert(err == nil, "C17/wait-returned-error-without-kernel-error")
			} else {
				vAssert(err != nil, "C17/wait-swallowed-kernel-error")
				if err != nil {
					vAssert(errors.Is(err, syscall.Errno(firstErr)), "C17/wait-returned-wrong-error")
				}
			}
			vAssert(s.starved == starved, "C17/waited-for-an-ack-already-consumed")
			pending = pending[cut:]
		case 4: // GetRules (domain: only when no ACK is outstanding)
			if len(pending) > 0 || closes > 0 {
				continue
			}
			rules, err := c.GetRules()
			if err == nil && keptFrom == nil {
				keptRules, keptFrom = rules, s.reqs[before]
			}
			// (a later listing returns other rules; what the first one handed out is checked below)
		case 5: // Close
			if vParam("sendfail", 0) != 0 && closes == 0 && setPID && vChoose("closesendfails", 2) == 1 {
				// the request that clears the PID cannot be sent: the socket is closed all the same
				s.failSendAt = s.sendCalls
				c.Close()
				s.failSendAt = -1
				closes++
				vAssert(s.closed == 1, "C17/socket-not-closed-exactly-once")
				continue
			}
			err := c.Close()
			closes++
			vAssert(err == nil, "C17/close-returned-error")
			sent := s.reqs[before:]
			if closes == 1 {
				if setPID {
					vAssert(len(sent) == 1, "C17/close-did-not-clear-pid-exactly-once")
					if len(sent) == 1 {
						rq := sent[0]
						vAssert(rq.typ == vUAPI_AUDIT_SET && len(rq.data) == 44, "C17/close-clear-pid-request-malformed")
						if len(rq.data) == 44 {
							vAssert(vGet32(rq.data[0:]) == vUAPI_STATUS_PID && vGet32(rq.data[12:]) == 0, "C17/close-clear-pid-request-malformed")
						}
					}
				} else {
					vAssert(len(sent) == 0, "C17/close-sent-request-without-setpid")
				}
			} else {
				vAssert(len(sent) == 0, "C17/later-close-sent-something")
			}
			vAssert(s.closed == 1, "C17/socket-not-closed-exactly-once")
		}
		// rule data handed out earlier stays what the kernel sent
		if keptFrom != nil {
			vAssert(len(keptRules) == len(keptFrom.rules), "C17/returned-rules-changed-later")
			for a := range keptRules {
				if a < len(keptFrom.rules) {
					for b := range keptRules[a] {
						if b < len(keptFrom.rules[a]) {
							vAssert(keptRules[a][b] == keptFrom.rules[a][b], "C17/returned-rules-changed-later")
						}
					}
				}
			}
		}
	}
}

func vCheckVerdictC17(rq *vRequest, err error) {
	if rq.acked && rq.errno == 0 {
		vAssert(err == nil, "C17/waiting-setter-failed-although-acked")
	} else {
		vAssert(err != nil, "C17/waiting-setter-succeeded-without-ack")
	}
}

func init() { vEntries["VH_ClientManyNoWait"] = VH_ClientManyNoWait }

// VH_ClientManyNoWait: a long run of NoWait setters on one client (the count is a parameter), then
// WaitForPendingACKs: every request is a well-formed AUDIT_SET with REQUEST|ACK, and every ACK is
// consumed exactly once.
func VH_ClientManyNoWait() {
	s := newSim()
	s.plain = true
	s.alwaysOK = true
	c := &AuditClient{Netlink: s}
	n := vParam("count", 40)
	if vParam("oneerror", 0) != 0 {
		s.errAt = vChoose("errat", n) // the kernel refuses one of the requests (symbolic errno, may be 0)
	}
	for i := 0; i < n; i++ {
		var err error
		switch i % 3 {
		case 0:
			err = c.SetEnabled(i%2 == 0, NoWait)
		case 1:
			err = c.SetRateLimit(uint32(i), NoWait)
		case 2:
			err = c.SetBacklogLimit(uint32(1000+i), NoWait)
		}
		vAssert(err == nil, "C17/nowait-send-failed")
	}
	vAssert(len(s.reqs) == n, "C16/exactly-one-request")
	anyErr := false
	for i, rq := range s.reqs {
		vAssert(rq.typ == vUAPI_AUDIT_SET, "C16/set-request-type")
		vAssert(rq.flags == vNLM_F_REQUEST|vNLM_F_ACK, "C16/set-request-flags")
		vAssert(len(rq.data) == 4*vStatusWords, "C16/set-payload-size")
		// the whole payload: this call's mask bit and value, every other field zero (nothing of the
		// earlier calls is left in it)
		switch i % 3 {
		case 0:
			vCheckSetRequest(rq, vUAPI_STATUS_ENABLED, 1, uint32(vIf(i%2 == 0, 1, 0)))
		case 1:
			vCheckSetRequest(rq, vUAPI_STATUS_RATE_LIMIT, 4, uint32(i))
		case 2:
			vCheckSetRequest(rq, vUAPI_STATUS_BACKLOG_LIMIT, 5, uint32(1000+i))
		}
		anyErr = vOr(anyErr, rq.errno != 0)
	}
	if anyErr {
		// the run of ACKs ends at the first kernel error: that call returns it and has consumed the ACKs
		// up to and including the refused request's, each once; a second call consumes the rest
		err := c.WaitForPendingACKs()
		vAssert(err != nil, "C17/wait-swallowed-kernel-error")
		if err != nil && s.errAt >= 0 {
			vAssert(errors.Is(err, syscall.Errno(s.reqs[s.errAt].errno)), "C17/wait-returned-wrong-error")
		}
		for i, rq := range s.reqs {
			if s.errAt >= 0 && i <= s.errAt {
				vAssert(rq.ackTaken == 1, "C17/ack-not-consumed-exactly-once")
			} else if s.errAt >= 0 {
				vAssert(rq.ackTaken == 0, "C17/ack-consumed-after-an-error")
			}
		}
		err = c.WaitForPendingACKs()
		vAssert(err == nil, "C17/wait-returned-error-without-kernel-error")
		for _, rq := range s.reqs {
			vAssert(rq.ackTaken == 1, "C17/ack-not-consumed-exactly-once")
		}
		return
	}
	if b := vParam("burst", 0); b > 0 {
		// a burst of unsolicited records sits in front of the ACKs
		var q []vEvent
		for i := 0; i < b; i++ {
			q = append(q, vEvent{kind: vEvUnsolicited, seq: 0, typ: 1300, payload: []byte{'x'}})
		}
		s.queue = append(q, s.queue...)
	}
	err := c.WaitForPendingACKs()
	vAssert(err == nil, "C17/wait-returned-error-without-kernel-error")
	for _, rq := range s.reqs {
		vAssert(rq.ackTaken == 1, "C17/ack-not-consumed-exactly-once")
	}
}

func init() { vEntries["VH_ClientCloseConcurrent"] = VH_ClientCloseConcurrent }

// VH_ClientCloseConcurrent: Close from several goroutines at once.
func VH_ClientCloseConcurrent() {
	s := newSim()
	s.plain = true
	c := &AuditClient{Netlink: s}
	usePID := vChoose("setpid", 2) == 1
	if usePID {
		c.SetPID(NoWait)
	}
	before := len(s.reqs)
	n := vParam("threads", 2)
	errs := make([]error, n)
	for i := 0; i < n; i++ {
		i := i
		vGo(func() { errs[i] = c.Close() })
	}
	vJoin()
	vAssert(s.closed == 1, "C17/socket-not-closed-exactly-once")
	sent := s.reqs[before:]
	if usePID {
		vAssert(len(sent) == 1, "C17/close-did-not-clear-pid-exactly-once")
	} else {
		vAssert(len(sent) == 0, "C17/close-sent-request-without-setpid")
	}
	for i := 0; i < n; i++ {
		vAssert(errs[i] == nil, "C17/close-returned-error")
	}
	// later calls are no-ops
	vAssert(c.Close() == nil && s.closed == 1 && len(s.reqs) == before+len(sent), "C17/later-close-not-a-no-op")
}
