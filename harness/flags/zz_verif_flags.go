// Harnesses for flags.Parse (properties C13 flag side, C14, and the text step of C07).

package flags

import (
	"strings"

	"github.com/elastic/go-libaudit/v2/rule"
)

func init() {
	vEntries["VH_ParseAnyString"] = VH_ParseAnyString
	vEntries["VH_ParseHole"] = VH_ParseHole
}

func vASCII(name string, n int) string {
	s := vStr(name, n)
	for i := 0; i < len(s); i++ {
		vAssume(s[i] < 0x80)
	}
	return s
}

func vCheckParseResult(r rule.Rule, err error) {
	if err != nil {
		vAssert(r == nil, "C13/rule-returned-with-error")
		return
	}
	vAssert(r != nil, "C13/neither-rule-nor-error")
	if r == nil {
		return
	}
	// a returned rule goes to Build, which must not panic either
	w, berr := rule.Build(r)
	if berr == nil {
		vAssert(len(w) >= 1040 && len(w)%4 == 0, "C13/built-rule-malformed")
	}
}

// VH_ParseAnyString: every ASCII string of n bytes as a rule line.
func VH_ParseAnyString() {
	n := vLen("n", vParam("maxlen", 3))
	s := vASCII("line", n)
	r, err := Parse(s)
	vCheckParseResult(r, err)
}

var vFlagTemplates = []string{"-a ", "-A ", "-F ", "-C ", "-S ", "-k ", "-p ", "-w ", "-D ", "-a always,exit -F ", "-a always,exit -S ", "-w /zzverif/x -p ", "-a exit,always -C "}

// VH_ParseHole: a symbolic hole of n bytes after each flag.
func VH_ParseHole() {
	t := vFlagTemplates[vParam("template", 0)]
	n := vLen("n", vParam("maxlen", 3))
	hole := vASCII("hole", n)
	r, err := Parse(t + hole)
	vCheckParseResult(r, err)
}

var _ = strings.Index

// ---- C14: every token of the line is accounted for --------------------------------------------

func init() { vEntries["VH_Tokens"] = VH_Tokens }

// line shapes: each letter is one flag (with its argument), '#' is a stray positional word
var vShapes = []string{
	"aF", "aFF", "Fa", "aS", "aSk", "aFk", "Ak", "aC", "aCF", "akk", "aSS",
	"w", "wp", "wk", "wpk", "pw", "kw", "D", "Dk",
	// must be rejected
	"F", "S", "C", "aAF", "aw", "Dw", "DaF", "wF", "",
	// stray words
	"#aF", "a#F", "aF#", "w#pk", "wp#", "D#", "#D", "aS#k",
}

var vAddArgs = []string{"always,exit", "exit,never", " task , always ", "user,always", "exclude,never"}

func vIsSpace(c byte) bool {
	return vOr(vOr(c == ' ', c == '\t'), vOr(vOr(c == '\n', c == '\r'), vOr(c == '\v', c == '\f')))
}

func vIsWord(c byte) bool {
	return vOr(vOr(vAnd(c >= 'a', c <= 'z'), vAnd(c >= 'A', c <= 'Z')), vOr(vAnd(c >= '0', c <= '9'), c == '_'))
}

func vTrim(s string) string {
	for len(s) > 0 && vIsSpace(s[0]) {
		s = s[1:]
	}
	for len(s) > 0 && vIsSpace(s[len(s)-1]) {
		s = s[:len(s)-1]
	}
	return s
}

var vFilterOps = []string{"<=", ">=", "&=", "!=", "=", "<", ">", "&"} // longest first
var vCompareOps = []string{"!=", "="}

// vSplitFilter reads "field op value" from a token the way the property describes it: the field is
// the word before the operator, the operator is the leftmost-longest one, the value is the complete
// text after it. ok=false when the token has no such shape.
func vSplitFilter(tok string, ops []string) (lhs, op, rhs string, ok bool) {
	t := vTrim(tok)
	i := 0
	for i < len(t) && vIsWord(t[i]) {
		i++
	}
	if i == 0 {
		return "", "", "", false
	}
	lhs = t[:i]
	rest := t[i:]
	for len(rest) > 0 && vIsSpace(rest[0]) {
		rest = rest[1:]
	}
	for _, o := range ops {
		if strings.HasPrefix(rest, o) {
			op = o
			break
		}
	}
	if op == "" {
		return "", "", "", false
	}
	rhs = rest[len(op):]
	if len(rhs) == 0 {
		return "", "", "", false
	}
	return lhs, op, rhs, true
}

type vTok struct {
	kind byte
	arg  string
}

// VH_Tokens: a line assembled from a token list the harness keeps.
func VH_Tokens() {
	shape := vShapes[vParam("shape", 0)]
	hole := vParam("hole", 4)
	var toks []vTok
	var line string
	for i := 0; i < len(shape); i++ {
		k := shape[i]
		var arg string
		switch k {
		case 'a', 'A':
			arg = vAddArgs[vChoose("add", len(vAddArgs))]
		case 'F', 'C':
			arg = vASCII("filter", vLen("filterlen", hole))
		case 'S', 'k', 'w', 'p':
			arg = vASCII("arg", vLen("arglen", vParam("arghole", 3)))
		case '#':
			arg = []string{"foo", "x=y", "-", "''", `""`}[vChoose("stray", 5)] // incl. empty quoted words
		}
		for j := 0; j < len(arg) && k != '#'; j++ {
			vAssume(arg[j] != '\'') // so that single-quoting is exact
		}
		toks = append(toks, vTok{k, arg})
		if len(line) > 0 {
			line += " "
		}
		switch k {
		case '#':
			line += arg
		case 'D':
			line += "-D"
		default:
			line += "-" + string([]byte{k}) + " '" + arg + "'"
		}
	}
	r, err := Parse(line)
	if err != nil {
		vAssert(r == nil, "C14/rule-returned-with-error")
		vReach("C14/rejected")
		return
	}
	vReach("C14/accepted")
	vAssert(r != nil, "C14/neither-rule-nor-error")
	if r == nil {
		return
	}
	// what the tokens say
	var nD, nW, nP, nA, nBigA, nF, nC, nS, nStray int
	for _, t := range toks {
		switch t.kind {
		case 'D':
			nD++
		case 'w':
			nW++
		case 'p':
			nP++
		case 'a':
			nA++
		case 'A':
			nBigA++
		case 'F':
			nF++
		case 'C':
			nC++
		case 'S':
			nS++
		case '#':
			nStray++
		}
	}
	if vKF("C14-stray-word-ends-parsing") && nStray > 0 {
		vKnown("C14-stray-word-ends-parsing", false)
		return
	}
	vAssert(nStray == 0, "C14/stray-word-silently-ignored")
	fam := 0
	if nD > 0 {
		fam++
	}
	if nW+nP > 0 {
		fam++
	}
	if nA+nBigA+nF+nC+nS > 0 {
		fam++
	}
	vAssert(fam == 1, "C14/mixed-or-missing-operation-accepted")
	if fam != 1 || nStray > 0 {
		return
	}
	var keys []string
	for _, t := range toks {
		if t.kind == 'k' {
			for _, w := range strings.Split(t.arg, ",") {
				keys = append(keys, vTrim(w))
			}
		}
	}
	sameList := func(got, want []string, label string) {
		vAssert(len(got) == len(want), label)
		for i := range got {
			if i < len(want) {
				vAssert(got[i] == want[i], label)
			}
		}
	}
	switch rr := r.(type) {
	case *rule.DeleteAllRule:
		vAssert(nD > 0, "C14/wrong-rule-kind")
		sameList(rr.Keys, keys, "C14/key-not-reflected")
	case *rule.FileWatchRule:
		vAssert(nW+nP > 0 && nD == 0, "C14/wrong-rule-kind")
		sameList(rr.Keys, keys, "C14/key-not-reflected")
		for _, t := range toks {
			switch t.kind {
			case 'w':
				vAssert(rr.Path == t.arg, "C14/watch-path-not-reflected") // (single -w per line in these shapes)
			case 'p':
				vAssert(len(rr.Permissions) == len(t.arg), "C14/permissions-not-reflected")
				for i := 0; i < len(t.arg) && i < len(rr.Permissions); i++ {
					var want rule.AccessType
					switch t.arg[i] {
					case 'r':
						want = rule.ReadAccessType
					case 'w':
						want = rule.WriteAccessType
					case 'x':
						want = rule.ExecuteAccessType
					case 'a':
						want = rule.AttributeChangeAccessType
					}
					vAssert(want != 0 && rr.Permissions[i] == want, "C14/permissions-not-reflected")
				}
			}
		}
	case *rule.SyscallRule:
		vAssert(nA+nBigA+nF+nC+nS > 0, "C14/wrong-rule-kind")
		vAssert(nA+nBigA == 1, "C14/both-or-neither-of-a-and-A-accepted")
		sameList(rr.Keys, keys, "C14/key-not-reflected")
		var sys []string
		fi := 0
		for _, t := range toks {
			switch t.kind {
			case 'a', 'A':
				parts := strings.Split(t.arg, ",")
				l, a := vTrim(parts[0]), vTrim(parts[1])
				if l == "always" || l == "never" {
					l, a = a, l
				}
				vAssert(rr.List == l && rr.Action == a, "C14/list-action-not-reflected")
				if t.kind == 'a' {
					vAssert(rr.Type == rule.AppendSyscallRuleType, "C14/append-prepend-confused")
				} else {
					vAssert(rr.Type == rule.PrependSyscallRuleType, "C14/append-prepend-confused")
				}
			case 'S':
				for _, w := range strings.Split(t.arg, ",") {
					sys = append(sys, vTrim(w))
				}
			case 'F', 'C':
				ops := vFilterOps
				typ := rule.ValueFilterType
				if t.kind == 'C' {
					ops, typ = vCompareOps, rule.InterFieldFilterType
				}
				if fi >= len(rr.Filters) {
					break
				}
				f := rr.Filters[fi]
				fi++
				// the token with the blanks between field and operator removed
				tt := vTrim(t.arg)
				i := 0
				for i < len(tt) && vIsWord(tt[i]) {
					i++
				}
				word, rest := tt[:i], tt[i:]
				for len(rest) > 0 && vIsSpace(rest[0]) {
					rest = rest[1:]
				}
				isOp := false
				for _, o := range ops {
					if f.Comparator == o {
						isOp = true
					}
				}
				complete := vTrim(f.LHS+f.Comparator+f.RHS) == vTrim(word+rest)
				if vKF("C14-filter-text-truncated") {
					vKnown("C14-filter-text-truncated", isOp && len(word) > 0 && f.LHS == word && complete)
					continue
				}
				vAssert(f.Type == typ, "C14/filter-kind")
				vAssert(isOp, "C14/filter-operator-not-an-operator")
				vAssert(len(word) > 0 && f.LHS == word, "C14/filter-field-not-the-complete-text-before-the-operator")
				vAssert(complete, "C14/filter-text-not-accounted-for-in-full")
			}
		}
		vAssert(len(rr.Filters) == nF+nC, "C14/not-exactly-one-filter-per-F-or-C")
		sameList(rr.Syscalls, sys, "C14/syscall-not-reflected")
	default:
		vAssert(false, "C14/wrong-rule-kind")
	}
}
