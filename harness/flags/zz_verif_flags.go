// Harnesses for flags.Parse (properties C13 flag side, C14, and the text step of C07).

package flags

import (
	"strings"

	"github.com/elastic/go-libaudit/v2/rule"
)

func init() {
	vEntries["VH_ParseAnyString"] = VH_ParseAnyString
	vEntries["VH_ParseHole"] = VH_ParseHole
}

func vASCII(name string, n int) string {
	s := vStr(name, n)
	for i := 0; i < len(s); i++ {
		vAssume(s[i] < 0x80)
	}
	return s
}

func vCheckParseResult(r rule.Rule, err error) {
	if err != nil {
		vAssert(r == nil, "C13/rule-returned-with-error")
		return
	}
	vAssert(r != nil, "C13/neither-rule-nor-error")
	if r == nil {
		return
	}
	// a returned rule goes to Build, which must not panic either
	w, berr := rule.Build(r)
	if berr == nil {
		vAssert(len(w) >= 1040 && len(w)%4 == 0, "C13/built-rule-malformed")
	}
}

// VH_ParseAnyString: every ASCII string of n bytes as a rule line.
func VH_ParseAnyString() {
	n := vLen("n", vParam("maxlen", 3))
	s := vASCII("line", n)
	r, err := Parse(s)
	vCheckParseResult(r, err)
}

var vFlagTemplates = []string{"-a ", "-A ", "-F ", "-C ", "-S ", "-k ", "-p ", "-w ", "-D ", "-a always,exit -F ", "-a always,exit -S ", "-w /zzverif/x -p ", "-a exit,always -C ",
	// appended later: the hole inside quotes (@ marks it), so that blanks and operator characters reach the flag's value
	"-a always,exit -F '@'", "-a always,exit -F \"@\"", "-a always,exit -C '@'", "-a always,exit -S '@' -k '@'", "-w '@' -p '@' -k '@'", "-a always,exit -F a0=1 -k '@'", "-a '@' -S open"}

// VH_ParseHole: a symbolic hole of n bytes after each flag.
func VH_ParseHole() {
	t := vFlagTemplates[vParam("template", 0)]
	n := vLen("n", vParam("maxlen", 3))
	hole := vASCII("hole", n)
	if strings.Contains(t, "@") {
		r, err := Parse(strings.ReplaceAll(t, "@", hole))
		vCheckParseResult(r, err)
		return
	}
	r, err := Parse(t + hole)
	vCheckParseResult(r, err)
}

var _ = strings.Index

// ---- C14: every token of the line is accounted for --------------------------------------------

func init() { vEntries["VH_Tokens"] = VH_Tokens }

// line shapes: each letter is one flag (with its argument), '#' is a stray positional word
var vShapes = []string{
	"aF", "aFF", "Fa", "aS", "aSk", "aFk", "Ak", "aC", "aCF", "akk", "aSS",
	"w", "wp", "wk", "wpk", "pw", "kw", "D", "Dk",
	// must be rejected
	"F", "S", "C", "aAF", "aw", "Dw", "DaF", "wF", "",
	// stray words
	"#aF", "a#F", "aF#", "w#pk", "wp#", "D#", "#D", "aS#k",
	// -p without -w, alone or mixed with the other families
	"aSp", "paS", "aFp", "Dp", "pD", "p", "pk", "Sp", "Cp",
	// a flag given twice
	"wpp", "pwp", "wppk",
	// a stray word at the very end, after a key
	"wk#", "aSk#", "aFk#",
}

var vAddArgs = []string{"always,exit", "exit,never", " task , always ", "user,always", "exclude,never"}

func vIsSpace(c byte) bool {
	return vOr(vOr(c == ' ', c == '\t'), vOr(vOr(c == '\n', c == '\r'), vOr(c == '\v', c == '\f')))
}

func vIsWord(c byte) bool {
	return vOr(vOr(vAnd(c >= 'a', c <= 'z'), vAnd(c >= 'A', c <= 'Z')), vOr(vAnd(c >= '0', c <= '9'), c == '_'))
}

func vTrim(s string) string {
	for len(s) > 0 && vIsSpace(s[0]) {
		s = s[1:]
	}
	for len(s) > 0 && vIsSpace(s[len(s)-1]) {
		s = s[:len(s)-1]
	}
	return s
}

var vFilterOps = []string{"<=", ">=", "&=", "!=", "=", "<", ">", "&"} // longest first
var vCompareOps = []string{"!=", "="}

// vSplitFilter reads "field op value" from a token the way the property describes it: the field is
// the word before the operator, the operator is the leftmost-longest one, the value is the complete
// text after it. ok=false when the token has no such shape.
func vSplitFilter(tok string, ops []string) (lhs, op, rhs string, ok bool) {
	t := vTrim(tok)
	i := 0
	for i < len(t) && vIsWord(t[i]) {
		i++
	}
	if i == 0 {
		return "", "", "", false
	}
	lhs = t[:i]
	rest := t[i:]
	for len(rest) > 0 && vIsSpace(rest[0]) {
		rest = rest[1:]
	}
	for _, o := range ops {
		if strings.HasPrefix(rest, o) {
			op = o
			break
		}
	}
	if op == "" {
		return "", "", "", false
	}
	rhs = rest[len(op):]
	if len(rhs) == 0 {
		return "", "", "", false
	}
	return lhs, op, rhs, true
}

type vTok struct {
	kind byte
	arg  string
}

// VH_Tokens: a line assembled from a token list the harness keeps.
func VH_Tokens() {
	shape := vShapes[vParam("shape", 0)]
	hole := vParam("hole", 4)
	var toks []vTok
	var line string
	var starts []int // where each token's text begins in line
	for i := 0; i < len(shape); i++ {
		k := shape[i]
		var arg string
		switch k {
		case 'a', 'A':
			arg = vAddArgs[vChoose("add", len(vAddArgs))]
		case 'F', 'C':
			arg = vASCII("filter", vLen("filterlen", hole))
		case 'S', 'k', 'w', 'p':
			arg = vASCII("arg", vLen("arglen", vParam("arghole", 3)))
		case '#':
			arg = []string{"foo", "x=y", "-", "''", `""`, `"x`, `'x y`, `\`}[vChoose("stray", 8)] // incl. empty quoted words and words whose quoting never ends
		}
		for j := 0; j < len(arg) && k != '#'; j++ {
			vAssume(arg[j] != '\'') // so that single-quoting is exact
		}
		toks = append(toks, vTok{k, arg})
		starts = append(starts, len(line))
		if len(line) > 0 {
			line += " "
		}
		switch k {
		case '#':
			line += arg
		case 'D':
			line += "-D"
		default:
			// how the argument is written: in single quotes (exact for every byte but the quote itself),
			// or - parameter "quoting" - bare or in double quotes, for the arguments that can be written so
			q := 0
			if vParam("quoting", 0) != 0 && (k == 'F' || k == 'C' || k == 'S' || k == 'k' || k == 'w' || k == 'p') {
				q = vChoose("quoting", 3)
			}
			if q != 0 {
				for j := 0; j < len(arg); j++ {
					c := arg[j]
					vAssume(vAnd(vAnd(c != '"', c != '\\'), vAnd(c != '$', c != '`')))
					if q == 1 {
						vAssume(vAnd(c > ' ', c < 0x7f))
					}
				}
				if q == 1 {
					vAssume(len(arg) > 0)
				}
			}
			switch q {
			case 0:
				line += "-" + string([]byte{k}) + " '" + arg + "'"
			case 1:
				line += "-" + string([]byte{k}) + " " + arg
			case 2:
				line += "-" + string([]byte{k}) + " \"" + arg + "\""
			}
		}
	}
	if vParam("mergeprelude", 0) != 0 && len(toks) >= 2 {
		// a look-alike line is parsed first: the same words, with the last one (flag and argument, or
		// stray word) folded into the quoted argument of the flag before it. What Parse makes of the
		// line under test must not depend on that.
		last, prev := toks[len(toks)-1], toks[len(toks)-2]
		bare := last.arg
		ok := prev.kind != 'D' && prev.kind != 'a' && prev.kind != 'A' && prev.kind != '#'
		if last.kind == 'D' {
			bare = "-D"
		} else if last.kind != '#' {
			bare = "-" + string([]byte{last.kind}) + " " + last.arg
		}
		for j := 0; j < len(bare); j++ {
			ok = ok && bare[j] != '\'' && bare[j] != '"' && bare[j] != '\\'
		}
		if ok {
			Parse(line[:starts[len(toks)-2]] + " -" + string([]byte{prev.kind}) + " '" + prev.arg + " " + bare + "'")
		}
	}
	r, err := Parse(line)
	if err != nil {
		vAssert(r == nil, "C14/rule-returned-with-error")
		vReach("C14/rejected")
		return
	}
	vReach("C14/accepted")
	vAssert(r != nil, "C14/neither-rule-nor-error")
	if r == nil {
		return
	}
	// what the tokens say
	var nD, nW, nP, nA, nBigA, nF, nC, nS, nStray int
	for _, t := range toks {
		switch t.kind {
		case 'D':
			nD++
		case 'w':
			nW++
		case 'p':
			nP++
		case 'a':
			nA++
		case 'A':
			nBigA++
		case 'F':
			nF++
		case 'C':
			nC++
		case 'S':
			nS++
		case '#':
			nStray++
		}
	}
	if vKF("C14-stray-word-ends-parsing") && nStray > 0 {
		vKnown("C14-stray-word-ends-parsing", false)
		return
	}
	vAssert(nStray == 0, "C14/stray-word-silently-ignored")
	fam := 0
	if nD > 0 {
		fam++
	}
	if nW+nP > 0 {
		fam++
	}
	if nA+nBigA+nF+nC+nS > 0 {
		fam++
	}
	vAssert(fam == 1, "C14/mixed-or-missing-operation-accepted")
	if fam != 1 || nStray > 0 {
		return
	}
	var keys []string
	for _, t := range toks {
		if t.kind == 'k' {
			for _, w := range strings.Split(t.arg, ",") {
				keys = append(keys, vTrim(w))
			}
		}
	}
	sameList := func(got, want []string, label string) {
		vAssert(len(got) == len(want), label)
		for i := range got {
			if i < len(want) {
				vAssert(got[i] == want[i], label)
			}
		}
	}
	switch rr := r.(type) {
	case *rule.DeleteAllRule:
		vAssert(nD > 0, "C14/wrong-rule-kind")
		sameList(rr.Keys, keys, "C14/key-not-reflected")
	case *rule.FileWatchRule:
		pDone := false
		vAssert(nW+nP > 0 && nD == 0, "C14/wrong-rule-kind")
		sameList(rr.Keys, keys, "C14/key-not-reflected")
		for _, t := range toks {
			switch t.kind {
			case 'w':
				vAssert(rr.Path == t.arg, "C14/watch-path-not-reflected") // (single -w per line in these shapes)
			case 'p':
				if pDone {
					break
				}
				pDone = true
				// every -p argument of the line, in order (a repeated -p adds to the list)
				var allP string
				for _, tt := range toks {
					if tt.kind == 'p' {
						allP += tt.arg
					}
				}
				t.arg = allP
				vAssert(len(rr.Permissions) == len(t.arg), "C14/permissions-not-reflected")
				for i := 0; i < len(t.arg) && i < len(rr.Permissions); i++ {
					var want rule.AccessType
					switch t.arg[i] {
					case 'r':
						want = rule.ReadAccessType
					case 'w':
						want = rule.WriteAccessType
					case 'x':
						want = rule.ExecuteAccessType
					case 'a':
						want = rule.AttributeChangeAccessType
					}
					vAssert(want != 0 && rr.Permissions[i] == want, "C14/permissions-not-reflected")
				}
			}
		}
	case *rule.SyscallRule:
		vAssert(nA+nBigA+nF+nC+nS > 0, "C14/wrong-rule-kind")
		vAssert(nA+nBigA == 1, "C14/both-or-neither-of-a-and-A-accepted")
		sameList(rr.Keys, keys, "C14/key-not-reflected")
		var sys []string
		fi := 0
		for _, t := range toks {
			switch t.kind {
			case 'a', 'A':
				parts := strings.Split(t.arg, ",")
				l, a := vTrim(parts[0]), vTrim(parts[1])
				if l == "always" || l == "never" {
					l, a = a, l
				}
				vAssert(rr.List == l && rr.Action == a, "C14/list-action-not-reflected")
				if t.kind == 'a' {
					vAssert(rr.Type == rule.AppendSyscallRuleType, "C14/append-prepend-confused")
				} else {
					vAssert(rr.Type == rule.PrependSyscallRuleType, "C14/append-prepend-confused")
				}
			case 'S':
				for _, w := range strings.Split(t.arg, ",") {
					sys = append(sys, vTrim(w))
				}
			case 'F', 'C':
				ops := vFilterOps
				typ := rule.ValueFilterType
				if t.kind == 'C' {
					ops, typ = vCompareOps, rule.InterFieldFilterType
				}
				if fi >= len(rr.Filters) {
					break
				}
				f := rr.Filters[fi]
				fi++
				// the token with the blanks between field and operator removed
				tt := vTrim(t.arg)
				i := 0
				for i < len(tt) && vIsWord(tt[i]) {
					i++
				}
				word, rest := tt[:i], tt[i:]
				for len(rest) > 0 && vIsSpace(rest[0]) {
					rest = rest[1:]
				}
				isOp := false
				for _, o := range ops {
					if f.Comparator == o {
						isOp = true
					}
				}
				complete := vTrim(f.LHS+f.Comparator+f.RHS) == vTrim(word+rest)
				// the operator at that place, in full: a two-character operator is not cut into a
				// one-character operator and a value that starts with '='
				longest := ""
				for _, o := range ops {
					if len(o) > len(longest) && len(rest) >= len(o) && rest[:len(o)] == o {
						longest = o
					}
				}
				if vKF("C14-filter-text-truncated") {
					vKnown("C14-filter-text-truncated", isOp && len(word) > 0 && f.LHS == word && complete)
					continue
				}
				vAssert(f.Type == typ, "C14/filter-kind")
				vAssert(isOp, "C14/filter-operator-not-an-operator")
				// (when nothing but blanks follows the longer operator the line has another reading, which
				// the property does not rule out: `x<=` as x < "=")
				if longest != "" && len(vTrim(rest[len(longest):])) > 0 {
					vAssert(f.Comparator == longest, "C14/filter-operator-is-not-the-complete-operator-text")
				}
				vAssert(len(word) > 0 && f.LHS == word, "C14/filter-field-not-the-complete-text-before-the-operator")
				vAssert(complete, "C14/filter-text-not-accounted-for-in-full")
			}
		}
		vAssert(len(rr.Filters) == nF+nC, "C14/not-exactly-one-filter-per-F-or-C")
		sameList(rr.Syscalls, sys, "C14/syscall-not-reflected")
	default:
		vAssert(false, "C14/wrong-rule-kind")
	}
}

// ---- C07: decode(build(r)) re-encodes to the same rule ---------------------------------------------

func init() { vEntries["VH_RoundTrip"] = VH_RoundTrip }

func vDigitsNZ(name string, n int) string {
	s := vStr(name, n)
	for i := 0; i < n; i++ {
		vAssume(vAnd(s[i] >= '0', s[i] <= '9'))
	}
	if n > 1 {
		vAssume(s[0] != '0')
	}
	return s
}

func vDec(d string) uint64 {
	var v uint64
	for i := 0; i < len(d); i++ {
		v = v*10 + uint64(d[i]-'0')
	}
	return v
}

// vPlain: n symbolic bytes without white space, quotes or other shell-active characters (the
// property's domain: ToCommandLine does not quote).
func vPlain(name string, n int) string {
	s := vStr(name, n)
	for i := 0; i < n; i++ {
		c := s[i]
		vAssume(vAnd(c > ' ', c < 0x7f))
		vAssume(vAnd(vAnd(c != '\'', c != '"'), vAnd(c != '\\', c != 1)))
		vAssume(c != ',') // -k and -S arguments are comma-separated lists by design
	}
	return s
}

var vRTFields = []string{"pid", "uid", "gid", "auid", "exit", "msgtype", "arch", "path", "exe", "key", "perm", "filetype", "a0", "success", "inode", "subj_user", "obj_uid", "dir",
	// appended later (indices above are referenced from checks.json)
	"euid", "suid", "fsuid", "egid", "sgid", "fsgid", "obj_gid", "ppid", "devmajor", "devminor", "a1", "a2", "a3", "saddr_fam", "pers",
	"obj_user", "obj_role", "obj_type", "obj_lev_low", "obj_lev_high", "subj_role", "subj_type", "subj_sen", "subj_clr"}

// vComparePairs: the 25 AUDIT_COMPARE_* pairs of the UAPI header, by auditctl field names.
var vComparePairs = [][2]string{
	{"auid", "euid"}, {"auid", "fsuid"}, {"auid", "obj_uid"}, {"auid", "suid"}, {"egid", "fsgid"}, {"egid", "obj_gid"}, {"egid", "sgid"},
	{"euid", "fsuid"}, {"euid", "obj_uid"}, {"euid", "suid"}, {"fsgid", "obj_gid"}, {"fsuid", "obj_uid"}, {"gid", "egid"}, {"gid", "fsgid"},
	{"gid", "obj_gid"}, {"gid", "sgid"}, {"sgid", "fsgid"}, {"sgid", "obj_gid"}, {"suid", "fsuid"}, {"suid", "obj_uid"}, {"uid", "auid"},
	{"uid", "euid"}, {"uid", "fsuid"}, {"uid", "obj_uid"}, {"uid", "suid"},
}

func vRTFilter(name string, idx int, ops []string) rule.FilterSpec {
	op := ops[vChoose("op", len(ops))]
	tag := "v" + string([]byte{'0' + byte(idx)})
	var rhs string
	switch name {
	case "uid", "auid", "obj_uid", "gid", "euid", "suid", "fsuid", "egid", "sgid", "fsgid", "obj_gid":
		isGID := name == "gid" || name == "egid" || name == "sgid" || name == "fsgid" || name == "obj_gid"
		switch vChoose(tag+"form", 3) {
		case 0:
			rhs = vDigitsNZ(tag, vParam("digits", 10))
			vAssume(vDec(rhs) < 1<<32)
		case 1:
			if isGID {
				rhs = "4294967295"
			} else {
				rhs = "-1"
			}
		case 2:
			rhs = "root"
		}
	case "exit":
		switch vChoose(tag+"form", 3) {
		case 0:
			rhs = vDigitsNZ(tag, vParam("smalldigits", 4))
		case 1:
			rhs = "-" + vDigitsNZ(tag, vParam("smalldigits", 4))
			vAssume(rhs != "-0")
		case 2:
			rhs = []string{"EPERM", "-ENOENT", "-EACCES", "EAGAIN"}[vChoose(tag+"errno", 4)]
		}
	case "msgtype":
		if vChoose(tag+"form", 2) == 0 {
			rhs = vDigitsNZ(tag, vParam("digits", 10))
			vAssume(vDec(rhs) < 1<<32)
		} else {
			rhs = []string{"USER_LOGIN", "AVC", "1199"}[vChoose(tag+"name", 3)]
		}
	case "arch":
		rhs = []string{"b64", "b32", "x86_64", "i386", "aarch64", "ppc64le"}[vChoose(tag+"arch", 6)]
	case "path", "exe", "key", "subj_user", "dir", "obj_user", "obj_role", "obj_type", "obj_lev_low", "obj_lev_high", "subj_role", "subj_type", "subj_sen", "subj_clr":
		if name == "dir" {
			rhs = []string{"/etc", "/", "/etc/"}[vChoose(tag+"dir", 3)]
		} else if name == "path" && vParam("realpath", 0) != 0 {
			rhs = "/etc/passwd"
		} else if name == "path" || name == "exe" || vParam("anyfirst", 0) == 0 {
			rhs = "/" + vPlain(tag, vLen(tag+"len", vParam("strmax", 2)))
		} else {
			// label-like values: any plain first byte (also one that looks like part of an operator)
			rhs = vPlain(tag, 1+vLen(tag+"len", vParam("strmax", 2)))
		}
	case "perm":
		bits := 1 + vChoose(tag+"perm", 15)
		for i, c := range []string{"r", "w", "x", "a"} {
			if bits&(1<<i) != 0 {
				rhs += c
			}
		}
	case "filetype":
		rhs = []string{"file", "dir", "fifo", "socket"}[vChoose(tag+"ft", 4)]
	case "saddr_fam":
		rhs = []string{"2", "10", "0x2", "1"}[vChoose(tag+"fam", 4)]
	default:
		rhs = vDigitsNZ(tag, vParam("digits", 10))
		vAssume(vDec(rhs) < 1<<32)
	}
	return rule.FilterSpec{Type: rule.ValueFilterType, LHS: name, Comparator: op, RHS: rhs}
}

func VH_RoundTrip() {
	var r rule.Rule
	shape := vParam("shape", 0)
	if vParam("prebuild", 0) != 0 {
		// the encoder and the printer have been used before, on rules that leave as much behind as a
		// rule can: another architecture, named syscalls, strings, keys, a comparison
		for _, pr := range []rule.Rule{
			&rule.SyscallRule{Type: rule.AppendSyscallRuleType, List: "exit", Action: "never", Syscalls: []string{"open", "stat"},
				Filters: []rule.FilterSpec{{Type: rule.ValueFilterType, LHS: "arch", Comparator: "=", RHS: "b32"}, {Type: rule.ValueFilterType, LHS: "exe", Comparator: "!=", RHS: "/bin/zz"},
					{Type: rule.InterFieldFilterType, LHS: "uid", Comparator: "!=", RHS: "euid"}}, Keys: []string{"k1", "k2"}},
			&rule.FileWatchRule{Type: rule.FileWatchRuleType, Path: "/etc/passwd", Permissions: []rule.AccessType{rule.WriteAccessType, rule.AttributeChangeAccessType}, Keys: []string{"wk"}},
			&rule.SyscallRule{Type: rule.AppendSyscallRuleType, List: "nosuchlist", Action: "always"},
		} {
			if w, err := rule.Build(pr); err == nil {
				if t, err := rule.ToCommandLine(w, false); err == nil {
					Parse(t)
				}
			}
		}
	}
	allOps := []string{"=", "!=", "<", ">", "<=", ">=", "&", "&="}
	eqOps := []string{"=", "!="}
	switch shape {
	case 0: // a syscall rule with one or two filters, optional syscalls and keys
		list := []string{"exit", "task", "user", "exclude"}[vParam("list", 0)]
		action := []string{"always", "never"}[vChoose("action", 2)]
		sr := &rule.SyscallRule{Type: rule.AppendSyscallRuleType, List: list, Action: action}
		f1 := vRTFields[vParam("field", 0)]
		ops := allOps
		if f1 == "arch" || f1 == "inode" || f1 == "perm" {
			ops = eqOps
		}
		if vParam("oneop", 0) != 0 {
			ops = ops[:1]
		}
		sr.Filters = append(sr.Filters, vRTFilter(f1, 0, ops))
		if f2 := vParam("second", -1); f2 >= 0 {
			sr.Filters = append(sr.Filters, vRTFilter(vRTFields[f2], 1, eqOps[:1]))
		}
		if f3 := vParam("third", -1); f3 >= 0 {
			sr.Filters = append(sr.Filters, vRTFilter(vRTFields[f3], 2, eqOps[:1]))
		}
		if vParam("compare", 0) != 0 {
			// -C comparisons, alone or after the value filter
			if vParam("compare", 0) == 2 {
				sr.Filters = sr.Filters[:0]
			}
			pr := vComparePairs[vChoose("pair", len(vComparePairs))]
			if vChoose("swap", 2) == 1 {
				pr[0], pr[1] = pr[1], pr[0]
			}
			sr.Filters = append(sr.Filters, rule.FilterSpec{Type: rule.InterFieldFilterType, LHS: pr[0], Comparator: eqOps[vChoose("cop", 2)], RHS: pr[1]})
		}
		switch vChoose("syscalls", vParam("sysforms", 3)) {
		case 1:
			sr.Syscalls = []string{[]string{"open", "execve", "all"}[vChoose("sysname", 3)]}
		case 2:
			// by number: concrete picks (a symbolic number makes all 2048 mask bits symbolic for the
			// decoder); 1000 and 2047 have no name in the x86_64 table
			sr.Syscalls = []string{[]string{"0", "59", "1000", "2047"}[vChoose("sysno", 4)]}
		}
		for i, nk := 0, vChoose("keys", vParam("maxkeys", 1)+1); i < nk; i++ {
			sr.Keys = append(sr.Keys, vPlain("key", 1+vChoose("keylen", 2)))
		}
		r = sr
	case 2: // long strings: each within Build's limits, together several kB of string buffer
		long := func(prefix string, n int) string {
			b := make([]byte, n)
			copy(b, prefix)
			for i := len(prefix); i < n; i++ {
				b[i] = "abcdefghijklmnopqrstuvwxyz"[i%26]
			}
			return string(b)
		}
		tail := vPlain("tail", 1)
		switch vChoose("combo", 5) {
		case 0:
			r = &rule.SyscallRule{Type: rule.AppendSyscallRuleType, List: "exit", Action: "always", Syscalls: []string{"open"},
				Filters: []rule.FilterSpec{{Type: rule.ValueFilterType, LHS: "path", Comparator: "=", RHS: long("/zzverif/p", 2999) + tail}, {Type: rule.ValueFilterType, LHS: "exe", Comparator: "=", RHS: long("/zzverif/e", 1097)}}}
		case 1:
			r = &rule.SyscallRule{Type: rule.AppendSyscallRuleType, List: "exit", Action: "always", Syscalls: []string{"open"},
				Filters: []rule.FilterSpec{{Type: rule.ValueFilterType, LHS: "path", Comparator: "=", RHS: long("/zzverif/p", 4095) + tail}}}
		case 2:
			r = &rule.SyscallRule{Type: rule.AppendSyscallRuleType, List: "exit", Action: "never", Syscalls: []string{"59"},
				Filters: []rule.FilterSpec{{Type: rule.ValueFilterType, LHS: "exe", Comparator: "!=", RHS: long("/zzverif/e", 2048)}, {Type: rule.ValueFilterType, LHS: "path", Comparator: "=", RHS: long("/zzverif/q", 2047) + tail}}, Keys: []string{long("key", 255)}}
		case 3:
			r = &rule.FileWatchRule{Type: rule.FileWatchRuleType, Path: long("/zzverif/w", 3999) + tail, Permissions: []rule.AccessType{rule.WriteAccessType}, Keys: []string{long("k", 100)}}
		case 4:
			sr := &rule.SyscallRule{Type: rule.AppendSyscallRuleType, List: "exit", Action: "always", Syscalls: []string{"open"}}
			for i := 0; i < 20; i++ {
				sr.Filters = append(sr.Filters, rule.FilterSpec{Type: rule.ValueFilterType, LHS: "subj_user", Comparator: "=", RHS: long("u", 249) + tail})
			}
			r = sr
		}
	case 1: // a file watch
		fw := &rule.FileWatchRule{Type: rule.FileWatchRuleType, Path: []string{"/etc/passwd", "/etc", "/zzverif/" + vPlain("leaf", 1+vChoose("leaflen", 2)), "/", "/etc/"}[vChoose("path", 5)]}
		for i := len("/zzverif/"); i < len(fw.Path); i++ {
			vAssume(vAnd(fw.Path[i] != '/', fw.Path[i] != '.'))
		}
		bits := vChoose("perm", 16)
		for i, a := range []rule.AccessType{rule.ReadAccessType, rule.WriteAccessType, rule.ExecuteAccessType, rule.AttributeChangeAccessType} {
			if bits&(1<<i) != 0 {
				fw.Permissions = append(fw.Permissions, a)
			}
		}
		if vChoose("key", 2) == 1 {
			fw.Keys = []string{vPlain("key", 2)}
		}
		r = fw
	}
	w1, err := rule.Build(r)
	if err != nil {
		vReach("C07/rejected-by-build")
		return
	}
	vReach("C07/accepted-by-build")
	t1, err := rule.ToCommandLine(w1, false)
	vAssert(err == nil, "C07/built-rule-cannot-be-decoded")
	if err != nil {
		return
	}
	r2, err := Parse(t1)
	vAssert(err == nil && r2 != nil, "C07/decoded-text-rejected-by-the-flag-parser")
	if r2 == nil {
		return
	}
	w2, err := rule.Build(r2)
	vAssert(err == nil, "C07/decoded-text-rejected-by-build")
	if err != nil {
		return
	}
	same := len(w1) == len(w2)
	// recorded findings, keyed by a predicate over the rule that was built
	kf := ""
	if sr, ok := r.(*rule.SyscallRule); ok {
		watchShaped, hasPerm := len(sr.Syscalls) == 0 || (len(sr.Syscalls) == 1 && sr.Syscalls[0] == "all"), false
		for i, f := range sr.Filters {
			switch f.LHS {
			case "perm":
				hasPerm = true
			case "path", "dir", "key":
			default:
				watchShaped = false
			}
			if f.LHS == "arch" && i > 0 {
				kf = "C07-arch-not-first-field"
			}
		}
		if watchShaped && hasPerm {
			kf = "C07-watch-shaped-syscall-rule"
		}
	}
	if kf != "" && vKF(kf) {
		eq := same
		for i := 0; same && i < len(w1); i++ {
			eq = vAnd(eq, w1[i] == w2[i])
		}
		vKnown(kf, eq)
		return
	}
	vAssert(same, "C07/re-encoded-rule-differs")
	for i := 0; same && i < len(w1); i++ {
		vAssert(w1[i] == w2[i], "C07/re-encoded-rule-differs")
	}
	t2, err := rule.ToCommandLine(w2, false)
	vAssert(err == nil && t2 == t1, "C07/second-decode-gives-different-text")
}

func init() { vEntries["VH_ParseHistory"] = VH_ParseHistory }

// VH_ParseHistory: what Parse makes of a line does not depend on the lines parsed before it
// (accepted or rejected at different places): line, other line, the line again -> the same rule.
func VH_ParseHistory() {
	goods := []string{
		"-a always,exit -F arch=b64 -S open,59 -F uid!=0 -F exe=/bin/x -k k1 -k k2",
		"-w /etc/passwd -p wa -k a,b",
		"-D -k gone",
		"-A user,never -F pid>7 -C uid!=euid",
	}
	others := []string{
		"-a always,exit -F uid=1 -F nosuch", "-a always,exit -S open -F", "-w /x -p wa -a exit,always", "-S open -k zz", "-a bogus,always -S 1 -k q",
		"-a always,exit -S 1 -k", "-a always,exit -k one -k two -F 'a b'=c", "-w /y -p rwxaq -k p", "-D -w /z", "-a always,exit -C uid=gid -k r", "-a exit,always -S 2 'stray'",
		"-a never,task -F pid=1 -k fine",
	}
	g := goods[vChoose("good", len(goods))]
	o := others[vChoose("other", len(others))]
	r1, err1 := Parse(g)
	vAssert(err1 == nil && r1 != nil, "C14/base-line-rejected")
	if r1 == nil {
		return
	}
	if _, errO := Parse(o); errO != nil {
		vReach("C14/other-line-rejected")
	}
	r2, err2 := Parse(g)
	vAssert(err2 == nil && r2 != nil, "C14/parse-depends-on-lines-parsed-before")
	if r2 == nil {
		return
	}
	w1, e1 := rule.Build(r1)
	w2, e2 := rule.Build(r2)
	vAssert((e1 == nil) == (e2 == nil), "C14/parse-depends-on-lines-parsed-before")
	same := len(w1) == len(w2)
	for i := 0; same && i < len(w1); i++ {
		if w1[i] != w2[i] {
			same = false
		}
	}
	vAssert(same, "C14/parse-depends-on-lines-parsed-before")
}
