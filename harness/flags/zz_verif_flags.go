// Harnesses for flags.Parse (properties C13 flag side, C14, and the text step of C07).

package flags

import (
	"strings"

	"github.com/elastic/go-libaudit/v2/rule"
)

func init() {
	vEntries["VH_ParseAnyString"] = VH_ParseAnyString
	vEntries["VH_ParseHole"] = VH_ParseHole
}

func vASCII(name string, n int) string {
	s := vStr(name, n)
	for i := 0; i < len(s); i++ {
		vAssume(s[i] < 0x80)
	}
	return s
}

func vCheckParseResult(r rule.Rule, err error) {
	if err != nil {
		vAssert(r == nil, "C13/rule-returned-with-error")
		return
	}
	vAssert(r != nil, "C13/neither-rule-nor-error")
	if r == nil {
		return
	}
	// a returned rule goes to Build, which must not panic either
	w, berr := rule.Build(r)
	if berr == nil {
		vAssert(len(w) >= 1040 && len(w)%4 == 0, "C13/built-rule-malformed")
	}
}

// VH_ParseAnyString: every ASCII string of n bytes as a rule line.
func VH_ParseAnyString() {
	n := vLen("n", vParam("maxlen", 3))
	s := vASCII("line", n)
	r, err := Parse(s)
	vCheckParseResult(r, err)
}

var vFlagTemplates = []string{"-a ", "-A ", "-F ", "-C ", "-S ", "-k ", "-p ", "-w ", "-D ", "-a always,exit -F ", "-a always,exit -S ", "-w /zzverif/x -p ", "-a exit,always -C "}

// VH_ParseHole: a symbolic hole of n bytes after each flag.
func VH_ParseHole() {
	t := vFlagTemplates[vParam("template", 0)]
	n := vLen("n", vParam("maxlen", 3))
	hole := vASCII("hole", n)
	r, err := Parse(t + hole)
	vCheckParseResult(r, err)
}

var _ = strings.Index
