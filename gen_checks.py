#!/usr/bin/env python3
# Regenerates checks.json (the job table read by bin/symgo). Edit here, not the JSON.
import json
Q,T=["quick","thorough"],["thorough"]
QO=["quick"]
C={}
def job(name,dir,entry,labels,params=None,tiers=Q,**kw):
    j={"name":name,"dir":dir,"entry":entry,"labels":labels,"params":params or {},"tiers":tiers}
    j.update(kw); return j

REASM_ASSUME=["single goroutine","clock stub: time.Now returns a constant instant and the timeout is 10^6 h (time is C19's subject)",
  "all sequence numbers of one history lie in one window of 2^24 with a symbolic base (the property's own assumption for C02/C03; harmless for C01/C10)",
  "messages are not mutated by the caller after pushing"]
REASM_OUT=["histories longer than the stated k","multi-goroutine use (C11)","Push(typ, raw) text parsing (C04/C05)"]
def reasm(prop,extra_quick=(),extra_thorough=()):
    jobs=[]
    for mif in (2,0):
        jobs.append(job(f"api-k3-mif{mif}",".","VH_Reassembler",[prop+"/"],{"k":3,"maxInFlight":mif},QO,
                    bounds=f"k=3 operations (push with symbolic uint32 sequence + uint16 type | Maintain) then Close; maxInFlight={mif}"))
    for mif in (0,1,2,3):
        jobs.append(job(f"api-k4-mif{mif}",".","VH_Reassembler",[prop+"/"],{"k":4,"maxInFlight":mif},T,
                    bounds=f"k=4 operations then Close; maxInFlight={mif}"))
    jobs.append(job("api-k3-nilpush",".","VH_Reassembler",[prop+"/"],{"k":3,"maxInFlight":1,"nilpush":1},Q,bounds="k=3 incl. PushMessage(nil); maxInFlight=1"))
    return {"jobs":jobs,"assumptions":REASM_ASSUME,"outside":REASM_OUT}
C["C01"]=reasm("C01")
C["C02"]=reasm("C02")
C["C03"]=reasm("C03")
C["C03"]["jobs"]+= [job("pin-ffffffff",".","VH_Reassembler",["C03/"],{"k":3,"maxInFlight":2,"pin":1},Q,bounds="k=3, first pushed sequence pinned to 0xFFFFFFFF"),
                    job("pin-zero",".","VH_Reassembler",["C03/"],{"k":3,"maxInFlight":2,"pin":2},Q,bounds="k=3, second pushed sequence pinned to 0")]
C["C10"]=reasm("C10")
c19=[job("nil-stream",".","VH_ReassemblerNilStream",["C19/"],bounds="symbolic maxInFlight (8 bit) and timeout (64 bit)"),
     job("api-k3-inf",".","VH_Reassembler",["C19/"],{"k":3,"maxInFlight":2},Q,bounds="k=3 then Close, post-Close Maintain/Close; infinite timeout")]
for tm,name in [(1,"-1s"),(2,"0"),(3,"5ms"),(4,"2s")]:
    c19.append(job("clock-k2-"+name,".","VH_Reassembler",["C19/"],{"k":2,"maxInFlight":1,"timeout_mode":tm},QO,clock="sym",
               bounds=f"k=2 operations, maxInFlight=1, timeout {name}, every time.Now() reading symbolic and non-decreasing"))
    for mif in (1,3):
        c19.append(job(f"clock-k3-{name}-mif{mif}",".","VH_Reassembler",["C19/"],{"k":3,"maxInFlight":mif,"timeout_mode":tm},T,clock="sym",
               bounds=f"k=3 operations, maxInFlight={mif}, timeout {name}, symbolic clock"))
C["C19"]={"jobs":c19,"assumptions":["single goroutine","clock stub: each time.Now() returns an arbitrary wall-clock instant (symbolic seconds within 2^31 of a base, symbolic nanoseconds) not earlier than the previous reading",
   "timeouts enumerated: -1s, 0, 5ms, 2s (clock jobs) and 10^6 h","boundary instant t = created+timeout and expiry during a call are left free in both directions (the property does not fix them)"],
   "outside":["monotonic-clock readings (the stub returns wall-only instants)","Duration values not in the list","real sleeping; native replay cannot force clock readings, so clock-dependent counterexamples are confirmed in the engine's concrete mode"]}
json.dump(C,open('/verif/checks.json','w'),indent=1)
print({k:len(v["jobs"]) for k,v in C.items()})
