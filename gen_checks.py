#!/usr/bin/env python3
# Regenerates checks.json (the job table read by bin/symgo). Edit here, not the JSON.
import json
Q,T=["quick","thorough"],["thorough"]
QO=["quick"]
C={}
def job(name,dir,entry,labels,params=None,tiers=Q,**kw):
    j={"name":name,"dir":dir,"entry":entry,"labels":labels,"params":params or {},"tiers":tiers}
    j.update(kw); return j

REASM_ASSUME=["single goroutine","clock stub: time.Now returns a constant instant and the timeout is 10^6 h (time is C19's subject)",
  "all sequence numbers of one history lie in one window of 2^24 with a symbolic base (the property's own assumption for C02/C03; harmless for C01/C10)",
  "messages are not mutated by the caller after pushing"]
REASM_OUT=["histories longer than the stated k","multi-goroutine use (C11)","Push(typ, raw) text parsing (C04/C05)"]
def reasm(prop,extra_quick=(),extra_thorough=()):
    jobs=[]
    k4 = (0,1,2) if prop=="C03" else (0,1,2,3)
    for mif in (2,0):
        jobs.append(job(f"api-k3-mif{mif}",".","VH_Reassembler",[prop+"/"],{"k":3,"maxInFlight":mif},QO,
                    bounds=f"k=3 operations (push with symbolic uint32 sequence + uint16 type | Maintain) then Close; maxInFlight={mif}"))
    for mif in k4:
        jobs.append(job(f"api-k4-mif{mif}",".","VH_Reassembler",[prop+"/"],{"k":4,"maxInFlight":mif},T,
                    bounds=f"k=4 operations then Close; maxInFlight={mif}"))
    jobs.append(job("api-k3-nilpush",".","VH_Reassembler",[prop+"/"],{"k":3,"maxInFlight":1,"nilpush":1},Q,bounds="k=3 incl. PushMessage(nil); maxInFlight=1"))
    jobs.append(job("api-k3-mif5",".","VH_Reassembler",[prop+"/"],{"k":3,"maxInFlight":5},Q,bounds="k=3 operations then Close; maxInFlight=5 (nothing leaves by overflow: three events can sit in the buffer at Close)"))
    jobs.append(job("api-k4-mif5",".","VH_Reassembler",[prop+"/"],{"k":4,"maxInFlight":5},T,bounds="k=4 operations then Close; maxInFlight=5"))
    jobs.append(job("alphabet-k5-mif5",".","VH_Reassembler",[prop+"/"],{"k":5,"maxInFlight":5,"alphabet":2},Q,bounds="k=5 operations over a small alphabet (sequence = symbolic base + {0,1}; SYSCALL | PROCTITLE | EOE; Maintain) then Close; maxInFlight=5"))
    for sc in range(4):
        jobs.append(job(f"script-{sc}",".","VH_Reassembler",[prop+"/"],{"k":0,"maxInFlight":4,"script":sc},Q,bounds=f"fixed history #{sc} of 14-24 pushes: events that collect 10-20 records each, interleaved with their neighbours, EOEs, then Close; maxInFlight=4; symbolic sequence base"))
    if prop=="C10": jobs.append(job("many-open-300",".","VH_Reassembler",[prop+"/"],{"k":0,"maxInFlight":300,"manyopen":300},Q,loop_cap=200000,max_steps=300000000,bounds="300 events open at once (distinct sequences from one of three concrete bases incl. one straddling the roll-over, every third pair out of order, no record completes) under maxInFlight=300, then Close: nothing leaves before Close"))
    if prop=="C10": jobs.append(job("many-open-600",".","VH_Reassembler",[prop+"/"],{"k":0,"maxInFlight":600,"manyopen":600},T,loop_cap=2000000,max_steps=2000000000,bounds="the same with 600 events under maxInFlight=600"))
    jobs.append(job("alphabet-k4-mif5",".","VH_Reassembler",[prop+"/"],{"k":4,"maxInFlight":5,"alphabet":3},Q,bounds="k=4 operations over sequence = base + {0,1,2} x 3 record kinds; maxInFlight=5 (three events buffered at once)"))
    jobs.append(job("alphabet-k4-mif2",".","VH_Reassembler",[prop+"/"],{"k":4,"maxInFlight":2,"alphabet":3},Q,bounds="k=4 operations over sequence = base + {0,1,2} x 3 record kinds; maxInFlight=2"))
    jobs.append(job("alphabet-k6-mif2",".","VH_Reassembler",[prop+"/"],{"k":6,"maxInFlight":2,"alphabet":2},T,bounds="k=6 over base + {0,1} x 3 record kinds; maxInFlight=2"))
    return {"jobs":jobs,"assumptions":REASM_ASSUME,"outside":REASM_OUT}
C["C01"]=reasm("C01")
for sc in (4,5):
    C["C01"]["jobs"].append(job(f"script-{sc}-reentrant",".","VH_Reassembler",["C01/"],{"k":0,"maxInFlight":4,"script":sc},Q,bounds="fixed history of 7-9 pushes in which two complete events leave in one batch and the Stream, from inside the first delivery, "+("pushes the record that releases a second batch of two" if sc==4 else "calls Maintain")+" (single goroutine, re-entrant use); symbolic sequence base"))
C["C01"]["jobs"].append(job("push-text-k3",".","VH_ReassemblerPush",["C01/"],{"k":3,"maxInFlight":2},Q,expect=["C01/push-accepted"],bounds="k=3 records through Push(typ, raw): record type symbolic (all 65536), well-formed text, sequence in {5,6}, then Close; maxInFlight=2"))
C["C01"]["jobs"].append(job("push-text-k4-mif1",".","VH_ReassemblerPush",["C01/"],{"k":4,"maxInFlight":1},T,bounds="k=4 through Push, maxInFlight=1"))
C["C01"]["outside"]=[x for x in REASM_OUT if not x.startswith("Push(")]+["Push(typ, raw) with text that does not parse (C04/C05)"]
C["C02"]=reasm("C02")
C["C02"]["jobs"]+=[job("clock-k3-2s",".","VH_Reassembler",["C02/"],{"k":3,"maxInFlight":2,"timeout_mode":4,"forcepush":2,"plain":1},Q,clock="sym",bounds="two pushes of SYSCALL records then one free operation (SYSCALL push or Maintain) with a 2s timeout and every time.Now() reading symbolic: events may leave the buffer by expiry, order must still hold"),
   job("clock-k3-2s-anytype",".","VH_Reassembler",["C02/"],{"k":3,"maxInFlight":2,"timeout_mode":4},T,clock="sym",bounds="k=3 free operations, record types symbolic, 2s timeout, symbolic clock")]
C["C02"]["assumptions"]=C["C02"]["assumptions"]+["clock jobs: each time.Now() returns an arbitrary non-decreasing instant"]
C["C03"]=reasm("C03")
C["C03"]["jobs"]+= [job("pin-ffffffff",".","VH_Reassembler",["C03/"],{"k":3,"maxInFlight":2,"pin":1},Q,bounds="k=3, first pushed sequence pinned to 0xFFFFFFFF"),
                    job("pin-zero",".","VH_Reassembler",["C03/"],{"k":3,"maxInFlight":2,"pin":2},Q,bounds="k=3, second pushed sequence pinned to 0")]
C["C10"]=reasm("C10")
C["C10"]["jobs"]+=[job("api-k2-postclose2",".","VH_Reassembler",["C10/"],{"k":2,"maxInFlight":2,"postclose":2},Q,bounds="k=2 then Close, then 2 more pushes: bound, head rule and delivery-only-for-cause hold for them as before Close"),
   job("api-k3-maxduration",".","VH_Reassembler",["C10/"],{"k":3,"maxInFlight":2,"timeout_mode":6},Q,bounds="k=3 then Close; timeout = the largest time.Duration: nothing leaves the buffer for time"),
   job("api-k3-250years",".","VH_Reassembler",["C10/"],{"k":3,"maxInFlight":2,"timeout_mode":7},Q,bounds="k=3 then Close; timeout = 250 years"),
   job("clock-k3-2s",".","VH_Reassembler",["C10/"],{"k":3,"maxInFlight":2,"timeout_mode":4,"forcepush":2,"plain":1},Q,clock="sym",bounds="two pushes of SYSCALL records then one free operation, 2s timeout, every time.Now() reading symbolic: an incomplete event in a non-full buffer leaves only once its timeout has elapsed; size bound and head rule as before")]
C["C10"]["assumptions"]=C["C10"]["assumptions"]+["clock jobs: each time.Now() returns an arbitrary non-decreasing instant"]
for P_ in ("C01",):
    C[P_]["jobs"]+=[job("api-k3-anywhere",".","VH_Reassembler",[P_+"/"],{"k":3,"maxInFlight":2,"window":0},Q,bounds="k=3 then Close, maxInFlight=2, sequence numbers anywhere in 0..2^32-1 (no common 2^24 window: orderings the sort treats as roll-over, in any mix)")]
for P_ in ("C01","C03"):
    C[P_]["jobs"]+=[job("clock-k3-2s",".","VH_Reassembler",[P_+"/"],{"k":3,"maxInFlight":2,"timeout_mode":4,"forcepush":2,"plain":1},Q,clock="sym",bounds="two pushes of SYSCALL records then one free operation, 2s timeout, symbolic clock: events may leave the buffer by expiry between the calls")]
    C[P_]["assumptions"]=C[P_]["assumptions"]+["clock jobs: each time.Now() returns an arbitrary non-decreasing instant"]
c19=[job("nil-stream",".","VH_ReassemblerNilStream",["C19/"],bounds="symbolic maxInFlight (8 bit) and timeout (64 bit)"),
     job("api-k3-inf",".","VH_Reassembler",["C19/"],{"k":3,"maxInFlight":2},Q,bounds="k=3 then Close, post-Close Maintain/Close; infinite timeout")]
c19.append(job("api-k2-postclose2",".","VH_Reassembler",["C19/"],{"k":2,"maxInFlight":2,"postclose":2},Q,bounds="k=2 then Close, then 2 more pushes (symbolic), then Maintain and Close: both fail and deliver nothing, whatever the late pushes left buffered"))
c19.append(job("api-k2-postclose2-mif0",".","VH_Reassembler",["C19/"],{"k":2,"maxInFlight":0,"postclose":2},T,bounds="as api-k2-postclose2 with maxInFlight=0"))
c19.append(job("api-k3-postclose1",".","VH_Reassembler",["C19/"],{"k":3,"maxInFlight":2,"postclose":1},T,bounds="k=3, Close, 1 push, Maintain, Close"))
c19.append(job("clock-k1-postclose1-5ms",".","VH_Reassembler",["C19/"],{"k":1,"maxInFlight":2,"postclose":1,"timeout_mode":3},Q,clock="sym",bounds="one operation, Close, one push, then Maintain and Close with a 5 ms timeout and symbolic clock readings: nothing is delivered after Close even when the late push has gone stale"))
c19.append(job("api-k3-maxduration",".","VH_Reassembler",["C19/"],{"k":3,"maxInFlight":2,"timeout_mode":6},Q,bounds="k=3 then Close; timeout = the largest time.Duration (2^63-1 ns)"))
c19.append(job("api-k3-250years",".","VH_Reassembler",["C19/"],{"k":3,"maxInFlight":1,"timeout_mode":7},Q,bounds="k=3 then Close; timeout = 250 years"))
for tm,name in [(1,"-1s"),(2,"0"),(3,"5ms"),(4,"2s")]:
    c19.append(job("clock-k2-"+name,".","VH_Reassembler",["C19/"],{"k":2,"maxInFlight":1,"timeout_mode":tm},QO,clock="sym",
               bounds=f"k=2 operations, maxInFlight=1, timeout {name}, every time.Now() reading symbolic and non-decreasing"))
    for mif in (1,3):
        c19.append(job(f"clock-k3-{name}-mif{mif}",".","VH_Reassembler",["C19/"],{"k":3,"maxInFlight":mif,"timeout_mode":tm},T,clock="sym",
               bounds=f"k=3 operations, maxInFlight={mif}, timeout {name}, symbolic clock"))
C["C19"]={"jobs":c19,"assumptions":["single goroutine","clock stub: each time.Now() returns an arbitrary wall-clock instant (symbolic seconds within 2^31 of a base, symbolic nanoseconds) not earlier than the previous reading",
   "timeouts enumerated: -1s, 0, 5ms, 2s (clock jobs) and 10^6 h, 250 years, 2^63-1 ns (constant clock)","boundary instant t = created+timeout and expiry during a call are left free in both directions (the property does not fix them)"],
   "outside":["monotonic-clock readings (the stub returns wall-only instants)","Duration values not in the list","real sleeping; native replay cannot force clock readings, so clock-dependent counterexamples are confirmed in the engine's concrete mode"]}

CLIENT_ASSUME=["the kernel is a harness-side simulation implementing NetlinkSendReceiver (no socket is opened); replies are handed out through the real parseNetlinkAuditMessage",
  "request sequence numbers handed out by the simulated Send are never 0 (getReply treats 0 as 'unsolicited'; the real client reaches 0 only on its 2^32-th send)",
  "kernel errno in [0,4095] (MAX_ERRNO)","time.Sleep is a no-op stub"]
METHODS=["GetStatus","GetRules","AddRule","DeleteRule","DeleteRules","SetEnabled","SetImmutable","SetFailure","SetRateLimit","SetBacklogLimit","SetBacklogWaitTime","SetPID"]
c08=[]
for i,m in enumerate(METHODS):
    if m=="DeleteRules":
        c08.append(job("cmd-"+m,".","VH_ClientCmd",["C08/"],{"method":i,"unsol":1,"trans":0,"bad":0},QO,
           bounds="DeleteRules: GetRules (0..2 rules) + one DeleteRule each; per request 0..1 unsolicited records, ACK with symbolic errno"))
        c08.append(job("cmd1-"+m,".","VH_ClientCmd",["C08/"],{"method":i,"unsol":1,"trans":1,"bad":1},T,bounds="DeleteRules with adversarial replies, 0..1 unsolicited, 0..1 transient per request"))
        continue
    c08.append(job("cmd-"+m,".","VH_ClientCmd",["C08/"],{"method":i,"unsol":1,"trans":1,"bad":1},Q,
       bounds=f"{m}: symbolic first sequence number, 0..1 unsolicited records (symbolic type/payload), 0..1 transient failures (EINTR|EAGAIN), reply in {{ACK with symbolic errno<=4095, foreign sequence, wrong type, short payload}}, status 32..44 symbolic bytes, 0..2 rules"))
    c08.append(job("cmd2-"+m,".","VH_ClientCmd",["C08/"],{"method":i,"unsol":2,"trans":2,"bad":1},T,
       bounds=f"{m}: as quick with 0..2 unsolicited records and 0..2 transient failures"))
for a,b in [(5,0),(0,1),(2,3),(8,5)]:
    c08.append(job(f"seq-{METHODS[a]}-{METHODS[b]}",".","VH_ClientCmd",["C08/"],{"method":a,"method2":b,"unsol":1,"trans":0,"bad":1},T,
       bounds=f"{METHODS[a]} then {METHODS[b]} (kernel queue drained in between)"))
for m in ("GetStatus","GetRules","DeleteRules"):
    c08.append(job("cmd-"+m+"-mid",".","VH_ClientCmd",["C08/"],{"method":METHODS.index(m),"unsol":0,"trans":0,"bad":0,"mid":1},Q,
       bounds=f"{m}: a transient failure (EINTR|EAGAIN) or an unsolicited record between the ACK and the data, between data messages and before the end-of-list message; symbolic errno"))
# one client, two commands: what the second returns must not depend on what the first returned
for a,b in [(1,1),(1,4),(4,1),(4,4),(0,0),(1,0),(0,4),(3,1),(2,1)]:
    c08.append(job(f"seq-{METHODS[a]}-{METHODS[b]}",".","VH_ClientCmd",["C08/"],{"method":a,"method2":b,"unsol":0,"trans":0,"bad":0},Q,
       bounds=f"{METHODS[a]} then {METHODS[b]} on the same client (kernel queue drained in between): each with its own symbolic errno, 0..2 rules / 32..44 status bytes"))
for pat,pn in [(0,"eintr"),(1,"eagain"),(2,"alternating")]:
    for jj in ([0,9,10] if pat==0 else [9,10]):
        c08.append(job(f"retry-{pn}-{jj}",".","VH_ClientRetry",["C08/"],{"j":jj,"pattern":pat},Q,bounds=f"exactly {jj} consecutive transient failures ({pn}) then the ACK with symbolic errno"))
for name,pr in [("9fail-1rec",{"j":9,"r2":1}),("1rec-9fail",{"r1":1,"j":9}),("9fail-1rec-9fail",{"j":9,"r2":1,"j2":9}),("12rec",{"j":0,"r1":12}),("5rec-5fail-5rec",{"r1":5,"j":5,"r2":5}),("3rec-9fail-3rec-9fail-3rec",{"r1":3,"j":9,"r2":3,"j2":9,"r3":3})]:
    for pat,pn in [(0,"eintr"),(1,"eagain")]:
        d=dict(pr); d["pattern"]=pat
        c08.append(job(f"mixed-{name}-{pn}",".","VH_ClientRetry",["C08/"],d,Q if pat==0 else T,bounds=f"unsolicited records (symbolic type/payload) and runs of <=9 transient failures ({pn}) before the ACK with symbolic errno: {name}"))
c08.append(job("send-fails",".","VH_ClientSendFail",["C08/"],{},Q,expect=["C08/send-failed"],bounds="each of the 12 command methods with the 1st, 2nd or 3rd Send of the call failing (ENOBUFS, nothing reaches the kernel): an error is returned and no data"))
c08.append(job("receive-fails-hard",".","VH_ClientSendFail",["C08/"],{"recvfail":1},Q,expect=["C08/receive-failed"],bounds="each of the 12 command methods with the 1st, 2nd or 3rd Receive failing with ENOBUFS/EBADF (outside the property's EINTR/EAGAIN clause): no panic, and nil is returned only if the kernel acknowledged every request with 0"))
C["C08"]={"jobs":c08,"assumptions":CLIENT_ASSUME,"outside":["the real kernel and socket","more than 2 unsolicited records per wait","Receive returning several messages at once","rule payloads longer than 3-4 bytes (content is only copied)"]}
C["C16"]={"jobs":[job("setters",".","VH_ClientSetters",["C16/"],{},Q,bounds="7 setters x both wait modes with full-range symbolic arguments (uint32/int32/bool/FailureMode), GetStatus request"),
   job("setters-after-nowait",".","VH_ClientSetters",["C16/"],{"afternowait":1},Q,bounds="as setters, after one NoWait setter on the same client whose ACK (symbolic errno) nobody collected: the command still sends exactly its own request (what it returns is not judged here)"),
   job("setters-after-2-nowait",".","VH_ClientSetters",["C16/"],{"afternowait":2},Q,bounds="the same after two uncollected NoWait setters"),
   job("setters-after-getstatus",".","VH_ClientSetters",["C16/"],{"afterget":1},Q,bounds="as setters, after a GetStatus answered with 32/36/40/44 bytes on the same client"),
   job("many-nowait-setters",".","VH_ClientManyNoWait",["C16/"],{"count":40},Q,bounds="40 NoWait setters in a row on one client: each request is AUDIT_SET with REQUEST|ACK and a full-size payload"),
   job("setters-recv-error",".","VH_ClientSetters",["C16/"],{"recvfail":1},Q,bounds="as setters, with the 1st or 2nd Receive of the call failing with ENOBUFS/EBADF/ECONNREFUSED: still exactly one well-formed request"),
   job("constants",".","VH_Constants",["C16/"],{},Q,bounds="closed terms: exported constants against UAPI values (linux/audit.h)"),
   job("wire-0-64",".","VH_StatusWire",["C16/"],{"maxlen":64},Q,bounds="FromWireFormat: every buffer length 0..64 with symbolic contents, receiver pre-filled with symbolic garbage"),
   job("wire-100",".","VH_StatusWire",["C16/"],{"maxlen":0,"long":1},Q,bounds="FromWireFormat: buffer length 100")],
   "assumptions":CLIENT_ASSUME+["UAPI constants transcribed from /usr/include/linux/audit.h of this image (see harness constants vUAPI_*)"],"outside":["the live kernel"]}
C["C17"]={"jobs":[job("history-k3",".","VH_ClientHistory",["C17/"],{"k":3},QO,bounds="histories of 3 operations from {setter NoWait, SetPID NoWait, setter WaitForReply, SetPID WaitForReply (may be refused), WaitForPendingACKs, GetRules, Close}, kernel errno per request symbolic"),
   job("history-k4",".","VH_ClientHistory",["C17/"],{"k":4},Q,bounds="histories of 4 operations"),
   job("history-k3-seqzero",".","VH_ClientHistory",["C17/"],{"k":3,"seqzero":1},Q,bounds="histories of 3 operations with the request counter anywhere, also passing through 0 (the 2^32 wrap); no unsolicited records in these histories"),
   job("many-nowait-setters-one-refused",".","VH_ClientManyNoWait",["C17/"],{"count":20,"oneerror":1},Q,bounds="20 NoWait setters in a row, any one of them refused by the kernel (symbolic errno): every setter returns nil, the first WaitForPendingACKs returns that error having consumed the ACKs up to it, the second consumes the rest"),
   job("many-nowait-setters",".","VH_ClientManyNoWait",["C17/"],{"count":40},Q,bounds="40 NoWait setters in a row, then WaitForPendingACKs: every ACK consumed exactly once"),
   job("nowait-setters-behind-a-burst",".","VH_ClientManyNoWait",["C17/"],{"count":3,"burst":25},Q,bounds="3 NoWait setters, 25 unsolicited records queued in front of the ACKs, WaitForPendingACKs: every ACK consumed exactly once"),
   job("history-k3-sendfail",".","VH_ClientHistory",["C17/"],{"k":3,"sendfail":1},Q,bounds="histories of 3 operations in which a NoWait setter's Send may fail, or the clear-PID Send inside Close: no ACK is awaited for it, the socket is closed all the same"),
   job("history-k4-sendfail",".","VH_ClientHistory",["C17/"],{"k":4,"sendfail":1},T,bounds="histories of 4 operations with failing NoWait Sends"),job("history-k5",".","VH_ClientHistory",["C17/"],{"k":5},T,bounds="histories of 5 operations"),
   job("close-2threads",".","VH_ClientCloseConcurrent",["C17/"],{"threads":2,"preemptions":3},Q,no_native=True,bounds="Close from 2 goroutines at once (with and without a prior SetPID), every interleaving at synchronisation operations with at most 3 preemptions, race detection"),
   job("close-3threads",".","VH_ClientCloseConcurrent",["C17/"],{"threads":3,"preemptions":2},T,no_native=True,bounds="Close from 3 goroutines, at most 2 preemptions")],
   "assumptions":CLIENT_ASSUME+["domain: reply-waiting commands (WaitForReply setters, GetRules) are issued only when no NoWait ACK is outstanding","the simulated kernel reuses one receive buffer"],
   "outside":["the live kernel"]}

c18=[]
for n in (0,1,3,4,5,17):
    c18.append(job(f"send-len{n}",".","VH_NetlinkSend",["C18/"],{"paylen":n,"sends":1},Q,no_native=True,bounds=f"one Send: symbolic type/flags/pid (0 and non-0)/client pid/counter, payload of {n} symbolic bytes"))
for n in (8953,8954,8955,8969,8970):
    c18.append(job(f"send-long{n}",".","VH_NetlinkSend",["C18/"],{"paylen":n,"sends":1,"symtail":2},Q,no_native=True,alloc_cap=65536,loop_cap=40000,bounds=f"one Send with a payload of {n} bytes (up to the 8970-byte audit maximum; concrete pattern, last 2 bytes symbolic)"))
c18.append(job("send-len8970",".","VH_NetlinkSend",["C18/"],{"paylen":8970,"sends":1},T,no_native=True,bounds="one Send with a payload of 8970 symbolic bytes"))
c18.append(job("send-x3",".","VH_NetlinkSend",["C18/"],{"paylen":2,"sends":3},Q,no_native=True,bounds="three consecutive Sends: returned sequence numbers increase by one (mod 2^32), symbolic start"))
c18.append(job("recv-0-24",".","VH_NetlinkReceive",["C18/"],{"maxlen":24,"bufsz":64},Q,no_native=True,bounds="Receive: datagram length 0..24 symbolic bytes x sender in {kernel, netlink pid!=0, unix, nil, recv error} x writer {none, copy, failing} x {raw parser, AuditClient.Receive}"))
c18.append(job("recv-0-64",".","VH_NetlinkReceive",["C18/"],{"maxlen":64,"bufsz":64},T,no_native=True,bounds="Receive: datagram length 0..64"))
c18.append(job("recv-large",".","VH_NetlinkReceive",["C18/"],{"maxlen":0,"exact":8986,"bufsz":8986},T,no_native=True,bounds="Receive: datagram of 8986 bytes (full audit buffer)"))
c18.append(job("parser-0-40",".","VH_ParseAuditMessage",["C18/"],{"maxlen":40},Q,bounds="parseNetlinkAuditMessage on every buffer length 0..40 with symbolic contents"))
c18.append(job("send-2threads",".","VH_NetlinkSendConcurrent",["C18/"],{"threads":2,"preemptions":3},Q,no_native=True,bounds="2 goroutines x 2 Sends on one client, every interleaving at synchronisation operations (incl. a scheduling point inside the sendto stub) with at most 3 preemptions; race detection by vector clocks"))
c18.append(job("send-2threads-1failure",".","VH_NetlinkSendConcurrent",["C18/"],{"threads":2,"preemptions":3,"failures":1},Q,no_native=True,bounds="2 goroutines x 2 Sends, any one of the four (or none) refused by sendto with EAGAIN: sequence numbers of the successful Sends stay distinct, increasing per sender and on the wire once; at most 3 preemptions"))
c18.append(job("send-3threads-1failure",".","VH_NetlinkSendConcurrent",["C18/"],{"threads":3,"preemptions":2,"failures":1},T,no_native=True,bounds="3 goroutines x 2 Sends, one refused, at most 2 preemptions"))
c18.append(job("send-3threads",".","VH_NetlinkSendConcurrent",["C18/"],{"threads":3,"preemptions":2},T,no_native=True,bounds="3 goroutines x 2 Sends, at most 2 preemptions"))
C["C18"]={"jobs":c18,"assumptions":["syscall.Sendto/Recvfrom/Close are harness-side stubs (engine only); NetlinkClient is constructed directly, Socket/Bind are outside","sequence wrap at 2^32 stated as mod-2^32 increase","counterexamples are confirmed in the engine's concrete mode (the native build cannot be given stubbed syscall results)"],
  "outside":["the real sockets and the kernel's echo behaviour on NETLINK_ROUTE/NETLINK_USERSOCK (I/O)","NewNetlinkClient (Socket/Bind/Getsockname)"]}

PARSE_ASSUME=["symbolic subject bytes are ASCII (< 0x80): the regexp summary is exact only there (enforced, not silently assumed)","regexp matching summarised per call by running the real regexp on one representative per byte-class vector",
  "fmt formatting, net.IP.String and time.Time.String are engine summaries (a panic inside them would not be seen)"]
KEYS=["saddr","argc","a0","a1","exit","arch","syscall","sig","subj","obj","key","success","res","auid","old-auid","ses","cwd","exe","proctitle","cmd","data","name","acct","msg"]
TYPES=["SYSCALL","SECCOMP","SOCKADDR","PROCTITLE","USER_CMD","TTY","USER_TTY","EXECVE","PATH","USER_LOGIN","AVC","LOGIN","CRED_DISP","USER_START","USER_END","EOE","1999"]
c05=[job("line-0-5","auparse","VH_LineTotal",["C05/"],{"maxlen":5},Q,bounds="ParseLogLine on every ASCII line of 0..5 symbolic bytes"),
     job("line-0-7","auparse","VH_LineTotal",["C05/"],{"maxlen":7},T,bounds="ParseLogLine on every ASCII line of 0..7 symbolic bytes")]
for i,t in enumerate(TYPES):
    big = t in ("SYSCALL","EXECVE","USER_START","LOGIN")
    c05.append(job(f"body-{t}","auparse","VH_BodyTotal",["C05/"],{"maxlen":6 if big else 5,"type":i},QO,bounds=f"Parse({t}, header + body) for every ASCII body of 0..{6 if big else 5} symbolic bytes, then Data/Tags/ToMapStr twice"))
    c05.append(job(f"body7-{t}","auparse","VH_BodyTotal",["C05/"],{"maxlen":7 if t!="AVC" else 5,"type":i},T,bounds=f"Parse({t}, header + body), body 0..7 symbolic ASCII bytes (AVC: 0..5, its pattern has 14 byte classes)"))
for tn,tname,ml in [(1,"typename",4),(2,"separator",5),(3,"unknown-number",5),(4,"type-and-separator",5),(5,"line-prefix",5)]:
    c05.append(job(f"line-{tname}","auparse","VH_LineTotal",["C05/"],{"maxlen":ml,"template":tn},Q,bounds=f"ParseLogLine on a full line whose {tname} part is every ASCII string of 0..{ml} symbolic bytes (type=<..> msg=audit(1.000:1): a=b)"))
c05.append(job("header-window-3","auparse","VH_HeaderBad",["C05/"],{"mode":5,"window":3},Q,bounds="Parse/ParseLogLine on \"audit\" + 0..3 symbolic ASCII bytes + header remainder (delimiters swapped, doubled, missing)"))
c05.append(job("header-overwrite-2","auparse","VH_HeaderBad",["C05/"],{"mode":6},Q,bounds="a well-formed line with any two header positions overwritten by symbolic ASCII bytes"))
c05.append(job("body-avc-middle-word","auparse","VH_BodyTotal",["C05/"],{"maxlen":5,"type":10,"avc":2},Q,bounds="AVC record \"avc:  denied  <..> for  pid=1 ...\" (blank before \"for\" written out) with the part where the permission set belongs every ASCII string of 0..5 symbolic bytes"))
c05.append(job("body-avc-middle","auparse","VH_BodyTotal",["C05/"],{"maxlen":4,"type":10,"avc":1},Q,bounds="AVC record \"avc:  denied  <..>for  pid=1 ...\" with the part where the permission set belongs every ASCII string of 0..4 symbolic bytes"))
for t in ("SYSCALL","EXECVE","PATH","AVC"):
    c05.append(job(f"warm-body-{t}","auparse","VH_BodyTotal",["C05/"],{"maxlen":3,"type":TYPES.index(t),"warm":1},Q,bounds=f"Parse({t}, header + body), body 0..3 symbolic ASCII bytes, after seven ordinary records were parsed and read (parser state not fresh); those are read again at the end"))
for k in ("a0","saddr","key","name"):
    c05.append(job(f"warm-field-{k}","auparse","VH_FieldTotal",["C05/"],{"key":KEYS.index(k) if 'KEYS' in dir() else 0,"maxlen":2,"type":{"saddr":2,"a0":7,"name":8}.get(k,0),"with":{"a0":2}.get(k,0),"warm":1},Q,bounds=f"{k}=<v>, v of 0..2 symbolic ASCII bytes in three quotings, after the warm-up"))
for k,stems in (("subj",(1,2)),("obj",(1,2)),("key",(3,5)),("name",(4,)),("cwd",(4,)),("a0",(3,)),("exe",(4,))):
    for st in stems:
        c05.append(job(f"stem{st}-field-{k}","auparse","VH_FieldTotal",["C05/"],{"key":KEYS.index(k),"maxlen":3,"type":{"obj":8,"name":8,"a0":7}.get(k,0),"with":{"a0":2}.get(k,0),"stem":st},Q,
           bounds=f"{k}=<stem + v>: a structured concrete beginning (#{st}: SELinux context with an MLS range / many colons / hex key list / deep path / comma list) followed by 0..3 symbolic ASCII bytes, three quotings"))
c05.append(job("bare-header","auparse","VH_BodyTotal",["C05/"],{"maxlen":4,"type":0,"bare":1},Q,bounds="Parse(SYSCALL, \"audit(1.000:1)\" + tail) for every ASCII tail of 0..4 symbolic bytes (no separator after the header)"))
c05.append(job("body-anytype","auparse","VH_BodyTotal",["C05/"],{"maxlen":4,"type":-1},T,bounds="record type symbolic (16 bit), body 0..4 symbolic ASCII bytes"))
KEYS_=["saddr","argc","a0","a1","exit","arch","syscall","sig","subj","obj","key","success","res","auid","old-auid","ses","cwd","exe","proctitle","cmd","data","name","acct","msg"]
KT={"saddr":2,"argc":7,"a0":7,"a1":7,"sig":1,"obj":8,"name":8,"res":9,"acct":9,"old-auid":11,"proctitle":3,"cmd":4,"data":5,"msg":13}
KW={"syscall":1,"a0":2,"a1":2,"argc":3}
for i,k in enumerate(KEYS):
    ml = 3 if k=="syscall" else 4
    kw5 = dict(loop_cap=400) if k in ("argc","a0","a1") else {}
    p5 = {"key":i,"maxlen":ml,"type":KT.get(k,0),"with":KW.get(k,0)}
    if kw5: p5["budget_is_violation"]=1
    c05.append(job(f"field-{k}","auparse","VH_FieldTotal",["C05/"],p5,QO,**kw5,
        bounds=("(a loop that runs more than 400 times on these inputs counts as not terminating: C05/unbounded-work) " if kw5 else "")+f"{TYPES[KT.get(k,0)]} record with {k}=<v>, v of 0..{ml} symbolic ASCII bytes, unquoted / double- / single-quoted"+(" plus the companion field" if k in KW else "")))
    c05.append(job(f"field5-{k}","auparse","VH_FieldTotal",["C05/"],{"key":i,"maxlen":5 if k!="syscall" else 4,"type":KT.get(k,0),"with":KW.get(k,0)},T,bounds=f"{k}=<v>, v of 0..5 symbolic ASCII bytes (syscall: 0..4)"))
for na,nn in [(1,"e-acute"),(2,"ff"),(3,"80fe"),(4,"euro")]:
    for k in ("key","cwd","exe","name","a0","proctitle","saddr"):
        i=KEYS.index(k)
        c05.append(job(f"nonascii-{nn}-{k}","auparse","VH_FieldTotal",["C05/"],{"key":i,"maxlen":3,"type":KT.get(k,0),"with":KW.get(k,0),"nonascii":na},Q if na in (1,2) and k in ("key","name","saddr","a0") else T,
            bounds=f"{k}=<v><non-ASCII bytes {nn}>, v of 0..3 symbolic ASCII bytes, unquoted / quoted"))
for fn,name in enumerate(["hexToString","hexToStrings","parseSockaddr"]):
    c05.append(job(f"internal-{name}","auparse","VH_HexInternals",["C05/"],{"fn":fn,"maxlen":4 if fn<2 else 6},Q,bounds=f"{name} on every byte string of 0..{4 if fn<2 else 6} bytes, all 256 values per byte (auxiliary harness on an unexported function)"))
for L in (0,1,2,3,4,5,8,15,16,17,47,48,49):
    c05.append(job(f"saddr-len{L}","auparse","VH_SaddrTotal",["C05/"],{"len":L,"sym":8},Q if L in (3,4,15,16,48) else T,bounds=f"SOCKADDR saddr of {L} hex digits: family concrete (unix/ipv4/ipv6/netlink) or 4 symbolic digits, next 8 digits symbolic"))
C["C05"]={"jobs":c05,"assumptions":PARSE_ASSUME,"outside":["inputs longer than the stated lengths","symbolic non-ASCII bytes"]}

c04=[job("named-types-11-digit-seconds","auparse","VH_Header",["C04/"],{"typemode":0,"secdigits":11,"seqdigits":10,"bodymax":1},Q,bounds="seconds of 11 symbolic digits < 2^34 with a 10-digit sequence (the widest header), body 0..1 bytes"),
     job("named-types","auparse","VH_Header",["C04/"],{"typemode":0,"secdigits":10,"seqdigits":10,"bodymax":3},Q,bounds="6 named types; seconds 10 symbolic digits < 2^34, ms 3 symbolic digits, sequence 10 symbolic digits < 2^32; body 0..3 symbolic ASCII bytes"),
     job("unknown-types","auparse","VH_Header",["C04/"],{"typemode":1,"secdigits":10,"seqdigits":10,"bodymax":0},Q,bounds="type symbolic over the unnamed codes < 1000 or >= 2600 (written as UNKNOWN[n]); symbolic digits as above; empty body"),
     job("lowercase","auparse","VH_Header",["C04/"],{"typemode":0,"lower":1,"secdigits":9,"seqdigits":5,"bodymax":0},Q,bounds="type name written in lower case"),
     job("short-fields","auparse","VH_Header",["C04/"],{"typemode":0,"secdigits":1,"seqdigits":1,"bodymax":2},Q,bounds="one-digit seconds and sequence"),
     job("secs-11-digits","auparse","VH_Header",["C04/"],{"typemode":0,"secdigits":11,"seqdigits":3,"bodymax":0},Q,bounds="seconds 11 symbolic digits < 2^34"),
     job("all-types-short","auparse","VH_Header",["C04/"],{"typemode":2,"secdigits":1,"seqdigits":1,"bodymax":0},Q,bounds="type fully symbolic (all 65536 codes: one path set per table entry plus the unnamed codes), one-digit seconds and sequence, empty body"),
     job("all-types","auparse","VH_Header",["C04/"],{"typemode":2,"secdigits":10,"seqdigits":10,"bodymax":0},T,bounds="type fully symbolic (all 65536 codes: one path set per table entry plus the unnamed codes)"),
     job("body-5","auparse","VH_Header",["C04/"],{"typemode":0,"secdigits":10,"seqdigits":10,"bodymax":5},T,bounds="body 0..5 symbolic ASCII bytes")]
for h in range(5):
    c04.append(job(f"hostile-{h}","auparse","VH_Header",["C04/"],{"typemode":0,"hostile":h,"secdigits":10,"seqdigits":10},Q,bounds="concrete hostile body #%d (well-known key names, extra msg=, delimiters, invalid UTF-8, empty)"%h))
for mode,name in enumerate(["seq-out-of-range","bad-byte-in-field","empty-field","sign-in-sequence","truncations"]):
    c04.append(job("bad-"+name,"auparse","VH_HeaderBad",["C04/"],{"mode":mode,"seqdigits":10},Q,bounds="malformed header: "+name))
for n in (3,5):
    c04.append(job(f"bad-window-{n}","auparse","VH_HeaderBad",["C04/"],{"mode":5,"window":n},Q if n==3 else T,bounds=f"\"audit\" + every ASCII string of 0..{n} symbolic bytes + \"1.000:5): cwd=(x)\" and + \": a=b\": swapped, doubled, missing and misplaced header delimiters"))
c04.append(job("bad-overwrite-2","auparse","VH_HeaderBad",["C04/"],{"mode":6},Q,bounds="a well-formed header \"audit(12.345:67): a=(b)\" with any two positions overwritten by symbolic ASCII bytes"))
for tn,tname,ml in [(1,"typename",4),(2,"separator",5),(3,"unknown-number",5),(4,"type-and-separator",5),(5,"line-prefix",5)]:
    c04.append(job(f"bad-line-{tname}","auparse","VH_LineTotal",["C04/"],{"maxlen":ml,"template":tn},Q,bounds=f"ParseLogLine on a full line whose {tname} part is every ASCII string of 0..{ml} symbolic bytes: error or message, no panic"))
for k,pl in [(1,0),(2,1),(3,0)]:
    c04.append(job(f"history-prelude-{k}","auparse","VH_Header",["C04/"],{"typemode":0,"secdigits":2,"seqdigits":2,"bodymax":0,"prelude":k,"preludeline":pl},Q,bounds=f"a well-formed line with its own symbolic digits (2-digit seconds, {k}-digit sequence) is parsed first, then the line under test (2-digit seconds and sequence): headers that are equal, a prefix of one another, or unrelated; the earlier message is compared again at the end"))
c04.append(job("history-prelude-wide","auparse","VH_Header",["C04/"],{"typemode":0,"secdigits":10,"seqdigits":10,"bodymax":0,"prelude":9},Q,bounds="the same with 10-digit seconds, a 9-digit sequence first and a 10-digit one second"))
for mode,name in [(4,"truncations"),(1,"bad-byte-in-field"),(3,"sign-in-sequence")]:
    c04.append(job("bad-"+name+"-after-good","auparse","VH_HeaderBad",["C04/"],{"mode":mode,"seqdigits":10,"prelude":1},Q,bounds="malformed header: "+name+", parsed right after the well-formed header it was derived from"))
c04.append(job("bad-seq-11-digits","auparse","VH_HeaderBad",["C04/"],{"mode":0,"seqdigits":11},Q,bounds="sequence of 11 symbolic digits >= 2^32"))
C["C04"]={"jobs":c04,"assumptions":PARSE_ASSUME+["expected numeric values are by construction (Horner over the same digit variables), not by parsing","time.Time.String is an uninterpreted injective rendering (the claim is about which instant reaches it)"],
   "outside":["bodies longer than 6 symbolic bytes","symbolic non-ASCII bytes in the body (concrete ones are in the hostile list)","stricter header grammars than first '(' '.' ':' ')' (the property does not define one)"]}

c20=[job("types-unnamed","auparse","VH_TypeRoundTrip",["C20/"],{"range":1},Q,bounds="record type symbolic over all codes < 1000 or >= 2600 (String -> GetAuditMessageType, MarshalText -> UnmarshalText)"),
     job("types-1000-1399","auparse","VH_TypeRoundTrip",["C20/"],{"range":2},Q,bounds="record type symbolic over 1000..1399 (one path set per table entry)"),
     job("types-1400-2599","auparse","VH_TypeRoundTrip",["C20/"],{"range":3},Q,bounds="record type symbolic over 1400..2599"),
     job("type-names","auparse","VH_TypeNames",["C20/"],{},Q,bounds="every entry of both record-type tables (exhaustive, concrete)"),
     job("errno","auparse","VH_ErrnoTables",["C20/"],{},Q,bounds="every entry of the errno tables (exhaustive, concrete)"),
     job("arch-syscalls","auparse","VH_ArchSyscallTables",["C20/"],{},Q,bounds="every architecture and every (arch, syscall) entry (exhaustive, concrete)",max_steps=80000000),
     job("rule-tables","rule","VH_RuleTables",["C20/"],{},Q,bounds="every field/operator/comparison entry, reverse arch and reverse syscall tables (exhaustive, concrete)",max_steps=80000000)]
c20.append(job("norm-tables","aucoalesce","VH_NormTables",["C20/"],{},Q,bounds="every record type and syscall named in the normalisation tables (table image of the current normalizations.yaml), exhaustive",max_steps=200000000))
c20.append(job("event-type-stable","aucoalesce","VH_EventTypeStable",["C20/"],{},Q,no_native=True,bounds="GetAuditEventType for a symbolic 16-bit record type: two calls agree, and the result is the same under insertion-order and reverse-order map iteration"))
c20.append(job("arch-names","rule","VH_ArchNames",["C20/"],{},Q,expect=["C20/arch-name-accepted"],bounds="every architecture name of auparse.AuditArchNames as -F arch=NAME / arch!=NAME through Build: the value word is the table's code"))
c20.append(job("norm-selection-record-types","aucoalesce","VH_NormSelection",["C20/"],{},Q,bounds="for every record type of the normalisation table: two events with independently chosen has_fields sets, then the first content again: action is one of a qualifying normalisation, and does not depend on what was processed before"))
c20.append(job("norm-selection-syscalls","aucoalesce","VH_NormSelection",["C20/"],{"syscalls":1},Q,bounds="for every syscall name of the table (and an unlisted one): SYSCALL event, another SYSCALL event (4 choices), the first again: action is that syscall's (or the default's), independent of history"))
C["C20"]={"jobs":c20,"assumptions":["tables are finite data: apart from the 16-bit record-type domain and the UNKNOWN[n] text path the check is a case split per entry, decided by evaluating the real lookups on the real tables (solver only prunes)"],
   "outside":["the YAML decoder (gopkg.in/yaml.v3 is reflection; the normalisation table enters through a table image regenerated natively)"]}

FC=["exe","cwd","name","proctitle","cmd","data-tty","data-usertty","acct"]
c12=[]
for i,k in enumerate(FC):
    for n,tiers in ((1,QO),(3,QO),(4,T),(2,T)):
        c12.append(job(f"field-{k}-len{n}","auparse","VH_EncodedField",["C12/"],{"case":i,"len":n},tiers,bounds=f"{k}: value of {n} symbolic bytes over 0x01..0xFF (proctitle 0x00..0xFF), written quoted (all bytes safe) or as upper-case hex (some byte unsafe)"))
c12+=[job("execve-2x2","auparse","VH_Execve",["C12/"],{"argc":2,"len":2},Q,bounds="EXECVE argc=2, each argument 2 symbolic bytes, quoted or hex"),
      job("execve-3x2","auparse","VH_Execve",["C12/"],{"argc":3,"len":2},T,bounds="EXECVE argc=3, each argument 2 symbolic bytes"),
      job("execve-1x4","auparse","VH_Execve",["C12/"],{"argc":1,"len":4},T,bounds="EXECVE argc=1, argument 4 symbolic bytes")]
for f,name in enumerate(["ipv4","ipv6","unix","netlink","other"]):
    c12.append(job("saddr-"+name,"auparse","VH_Saddr",["C12/"],{"family":f,"len":3},Q,bounds={"ipv4":"4 symbolic address bytes, symbolic port","ipv6":"3 symbolic + 13 concrete address bytes, symbolic port (address text through the net.IP.String summary)","unix":"path of 3 symbolic non-NUL bytes, with and without bytes after the terminator","netlink":"10 symbolic bytes, passed through","other":"symbolic family byte not in {1,2,10,16}, passed through"}[name]))
for L in (54,55,107):
    c12.append(job(f"saddr-unix-long{L}","auparse","VH_Saddr",["C12/"],{"family":2,"len":2,"longpath":L},Q,bounds=f"unix path of {L} bytes (concrete stem, last 2 bytes symbolic)"))
c12.append(job("saddr-unix-full108","auparse","VH_Saddr",["C12/"],{"family":2,"len":2,"longpath":108,"noterm":1},Q,bounds="unix path filling all 108 bytes of sun_path, no terminator"))
for i,k in enumerate(FC):
    c12.append(job(f"field-{k}-long","auparse","VH_EncodedField",["C12/"],{"case":i,"len":2,"long":200},Q,bounds=f"{k}: value of 200 bytes (concrete stem, last 2 bytes symbolic over 0x01..0xFF), quoted or hex"))
    c12.append(job(f"field-{k}-long1100","auparse","VH_EncodedField",["C12/"],{"case":i,"len":1,"long":1100},T,bounds=f"{k}: value of 1100 bytes (last byte symbolic)"))
for ci,cn in [(8,"cwd-usercmd")]:
    c12.append(job(f"field-{cn}-len2","auparse","VH_EncodedField",["C12/"],{"case":ci,"len":2},Q,bounds=f"{cn}: the key in another record type that carries it, value of 2 symbolic bytes over 0x01..0xFF, quoted or hex"))
c12.append(job("execve-12-args","auparse","VH_Execve",["C12/"],{"argc":12,"len":2,"symlast":1},Q,bounds="EXECVE argc=12: a0..a10 concrete, a11 of 2 symbolic bytes over 0x01..0xFF (quoted or hex)"))
c12.append(job("execve-2-long","auparse","VH_Execve",["C12/"],{"argc":2,"len":2,"long":300},Q,bounds="EXECVE argc=2, second argument 300 bytes (last 2 symbolic)"))
c12.append(job("saddr-unix-len5","auparse","VH_Saddr",["C12/"],{"family":2,"len":5},T,bounds="unix path of 5 symbolic bytes"))
for n in (1,2,3,6):
    c12.append(job(f"plain-len{n}","auparse","VH_PlainField",["C12/"],{"len":n},Q if n<=3 else T,bounds=f"plain key=<v>, v of {n} symbolic printable bytes without blanks/quotes"))
c12.append(job("plain-len5","auparse","VH_PlainField",["C12/"],{"len":5},T,bounds="plain key=<v>, v of 5 symbolic bytes"))
for w,name in enumerate(["result-words","result-arbitrary","unset-ids","exit-errno","arch-syscall"]):
    c12.append(job("derived-"+name,"auparse","VH_Derived",["C12/"],{"what":w,"len":3},Q if name!="arch-syscall" else T,
       bounds={"result-words":"success=yes|no, res=1|0|success|failed","result-arbitrary":"res=<3 symbolic bytes>: result is success or fail","unset-ids":"auid/ses/old-auid = -1, 4294967295 or a symbolic uint32 written in decimal","exit-errno":"exit=-N for every errno in the table, symbolic non-negative codes, an unknown negative code","arch-syscall":"every architecture x every syscall number of its table, plus an unknown number"}[name]))
c12.append(job("derived-arch-syscall-sampled","auparse","VH_Derived",["C12/"],{"what":4,"len":3,"sample":1},Q,bounds="every architecture of the table x its lowest, middle and highest syscall number, plus an unknown number"))
c12.append(job("derived-arch-syscall-x86","auparse","VH_Derived",["C12/"],{"what":4,"len":3,"onlyx86":1},QO,bounds="x86_64: every syscall number of its table, plus an unknown number"))
# the same after the parser has been used on seven ordinary records (state kept between calls)
c12.append(job("warm-field-exe-len2","auparse","VH_EncodedField",["C12/"],{"case":0,"len":2,"warm":1},Q,bounds="exe of 2 symbolic bytes, after seven ordinary records were parsed and read; those are compared again at the end"))
c12.append(job("warm-field-name-len2","auparse","VH_EncodedField",["C12/"],{"case":2,"len":2,"warm":1},Q,bounds="PATH name of 2 symbolic bytes, after the warm-up"))
c12.append(job("warm-field-cmd-len2","auparse","VH_EncodedField",["C12/"],{"case":4,"len":2,"warm":1},Q,bounds="USER_CMD cmd of 2 symbolic bytes, after the warm-up"))
c12.append(job("warm-execve-2x2","auparse","VH_Execve",["C12/"],{"argc":2,"len":2,"warm":1},Q,bounds="EXECVE argc=2, 2 symbolic bytes each, after the warm-up"))
c12.append(job("warm-saddr-ipv4","auparse","VH_Saddr",["C12/"],{"family":0,"len":3,"warm":1},Q,bounds="ipv4 SOCKADDR after the warm-up"))
c12.append(job("warm-saddr-unix","auparse","VH_Saddr",["C12/"],{"family":2,"len":3,"warm":1},Q,bounds="unix SOCKADDR after the warm-up"))
c12.append(job("warm-plain-len2","auparse","VH_PlainField",["C12/"],{"len":2,"warm":1},Q,bounds="plain field of 2 symbolic bytes after the warm-up"))
C["C12"]={"jobs":c12,"assumptions":PARSE_ASSUME+["the kernel's encoding rule (audit_log_untrustedstring) is re-implemented in the harness: double quotes iff all bytes in 0x21..0x7e and not '\"', else upper-case hex",
   "values obey the property's exclusions (no leading/trailing quote character, no trailing backslash) and are not one of the placeholders","name tables themselves are the oracle for the name cases (C20 checks the tables)"],
   "outside":["values longer than 4-5 bytes","correctness of net.IP.String (summarised as an injective rendering)"]}

RULE_ASSUME=["GOARCH=amd64 (rule encoding is architecture dependent)","os.Stat and os/user lookups are stubs with fixed answers for the names the harness uses (no file system, no user database)"]
BASES=["watch","syscall-two-strings","all-syscalls-compare","user-msgtype","64-fields"]
c13=[]
for i,bn in enumerate(BASES):
    c13.append(job(f"decode-{bn}","rule","VH_DecodeHostile",["C13/"],{"base":i,"budget_is_violation":1},Q,alloc_cap=65536,loop_cap=3000,
        bounds=f"valid rule '{bn}' with one of 16 header words (flags, action, field_count, buflen, mask[0], mask[63], fields/values/fieldflags[0,1,63], values[2]) replaced by a symbolic 32-bit value; allocation cap 65536 elements (a rule that names all 2048 syscalls legitimately prints ~50 KB of text), unwinding cap 3000"))
for (a,b,name) in [(2,3,"fieldcount-x-buflen"),(10,11,"values1-x-values2"),(6,9,"field0-x-value0"),(10,3,"values1-x-buflen")]:
    c13.append(job(f"decode-pair-{name}","rule","VH_DecodeHostile",["C13/"],{"base":1,"word1":a,"word2":b,"budget_is_violation":1},Q,alloc_cap=65536,loop_cap=3000,bounds=f"syscall rule with two header words symbolic at once: {name}"))
for rs in (0,1):
    c13.append(job("decode-field-value"+("-resolve" if rs else ""),"rule","VH_DecodeFieldValue",["C13/"],{"resolve":rs},Q,no_native=bool(rs),expect=["C13/field-value-decoded"],alloc_cap=65536,loop_cap=3000,
       bounds="one-filter rule with the field word any UAPI field code (or an unknown one), any of the 8 operators and a symbolic 32-bit value word, ToCommandLine with resolveIds=%s%s"%("true" if rs else "false"," (user/group lookups answered by the stub database)" if rs else "")))
c13.append(job("build-field-values","rule","VH_BuildFieldValues",["C13/"],{},Q,expect=["C13/hostile-value-accepted"],bounds="every field name (and an unknown one) x 23 hostile right-hand sides (empty, blank, signs, half numbers, out of range, non-ASCII) x 4 operators x 4 lists through Build (and ToCommandLine when accepted)"))
c13.append(job("decode-short","rule","VH_DecodeShort",["C13/"],{"budget_is_violation":1},Q,alloc_cap=65536,loop_cap=3000,bounds="buffers of length 0,1,4,1039,1040,1041,1044 with the scalar header words and the tail symbolic"))
for c,name in enumerate(["syscall-digits","65-filters","garbage-strings","nil-and-odd","filter-type","big-syscall-numbers"]):
    c13.append(job("build-"+name,"rule","VH_BuildHostile",["C13/"],{"case":c},Q,bounds={"syscall-digits":"syscall given as 0..5 symbolic decimal digits, optionally negative","65-filters":"65 filters + key","garbage-strings":"list/action/field/operator/value replaced by 0..2 symbolic ASCII bytes","nil-and-odd":"nil rule, nil pointers of each type, foreign Rule implementation, DeleteAllRule","filter-type":"symbolic FilterType byte","big-syscall-numbers":"2047, 2048, 2049, 2^31-1, 2^31, 2^32-1, 2^32, -1, 10^20-1"}[name]))
c13.append(job("flags-any-0-3","rule/flags","VH_ParseAnyString",["C13/"],{"maxlen":3},Q,bounds="flags.Parse (then Build) on every ASCII string of 0..3 symbolic bytes"))
c13.append(job("flags-any-0-5","rule/flags","VH_ParseAnyString",["C13/"],{"maxlen":5},T,bounds="flags.Parse on every ASCII string of 0..5 symbolic bytes"))
TEMPL=["-a","-A","-F","-C","-S","-k","-p","-w","-D","-a always,exit -F","-a always,exit -S","-w /zzverif/x -p","-a exit,always -C"]
for i,t in enumerate(TEMPL):
    c13.append(job(f"flags-hole-{i}","rule/flags","VH_ParseHole",["C13/"],{"template":i,"maxlen":3},Q,bounds=f"'{t} <hole>' with a hole of 0..3 symbolic ASCII bytes, then Build"))
    c13.append(job(f"flags-hole5-{i}","rule/flags","VH_ParseHole",["C13/"],{"template":i,"maxlen":5},T,bounds=f"'{t} <hole>' with a hole of 0..5 symbolic ASCII bytes"))
QTEMPL=["-a always,exit -F '@'","-a always,exit -F \"@\"","-a always,exit -C '@'","-a always,exit -S '@' -k '@'","-w '@' -p '@' -k '@'","-a always,exit -F a0=1 -k '@'","-a '@' -S open"]
for i,t in enumerate(QTEMPL):
    ml = 4 if t.count("@")==1 else 3
    c13.append(job(f"flags-quoted-hole-{i}","rule/flags","VH_ParseHole",["C13/"],{"template":len(TEMPL)+i,"maxlen":ml},Q,bounds=f"{t} with @ a hole of 0..{ml} symbolic ASCII bytes (blanks, operator characters and quotes reach the flag's value), then Build"))
C["C13"]={"jobs":c13,"assumptions":RULE_ASSUME+["an unwinding failure (loop cap) or an allocation beyond the cap on a path whose bound comes from an input number is reported as the violation"],
   "outside":["more than two header words symbolic at once","flags.Parse side: see the flags jobs"]}

FIELDS=["a0","a1","a2","a3","arch","auid","devmajor","devminor","dir","egid","euid","exe","exit","filetype","fsgid","fsuid","gid","inode","msgtype","obj_gid","obj_lev_high","obj_lev_low","obj_role","obj_type","obj_uid","obj_user","path","perm","pers","pid","ppid","saddr_fam","sgid","subj_clr","subj_role","subj_sen","subj_type","subj_user","success","suid","uid"]
c06=[]
FULL=("a0","uid","exit","msgtype","path")
for i,f in enumerate(FIELDS):
    if f in FULL:
        c06.append(job("field-"+f,"rule","VH_EncodeFilter",["C06/"],{"field":i,"digits":10,"negdigits":9,"hexdigits":8,"octdigits":10,"strmax":3,"maxkeys":1},Q,expect=["C06/accepted"],
           bounds=f"-F {f}<op><value>: every list x action x 8 operators; numeric values as 10 symbolic decimal digits / negative / 8 hex digits / octal (full uint32), names where the field takes names, strings of 0..3 symbolic bytes; 0..1 key of 0..2 symbolic bytes"))
    else:
        lst = 0
        c06.append(job("field-"+f,"rule","VH_EncodeFilter",["C06/"],{"field":i,"list":lst,"numforms":1,"digits":6,"strmax":2,"maxkeys":1},QO,expect=["C06/accepted"],
           bounds=f"-F {f}<op><value> on the exit list x action x 8 operators; numeric values as 6 symbolic decimal digits, names where the field takes names, strings of 0..2 symbolic bytes; 0..1 key"))
        c06.append(job("fieldfull-"+f,"rule","VH_EncodeFilter",["C06/"],{"field":i,"digits":10,"negdigits":9,"hexdigits":8,"octdigits":10,"strmax":3,"maxkeys":1},T,expect=["C06/accepted"],
           bounds=f"-F {f}: every list x action x operator x all number spellings"))
for (a,b) in [("path","uid"),("exe","subj_user"),("a0","exit"),("key","dir")]:
    if a=="key": continue
    c06.append(job(f"two-{a}-{b}","rule","VH_EncodeFilter",["C06/"],{"field":FIELDS.index(a),"second":FIELDS.index(b),"list":0,"digits":5,"negdigits":3,"hexdigits":3,"octdigits":3,"strmax":2,"maxkeys":2},T,expect=["C06/accepted"],
       bounds=f"two filters ({a}, {b}) on the exit list with 0..2 keys: order of triples and back-to-back strings"))
c06.append(job("two-path-exe-quick","rule","VH_EncodeFilter",["C06/"],{"field":FIELDS.index("path"),"second":FIELDS.index("exe"),"list":0,"strmax":2,"maxkeys":2},QO,expect=["C06/accepted"],bounds="two string filters (path, exe) + 0..2 keys: strings back-to-back in order, joined keys"))
c06.append(job("mask","rule","VH_EncodeMask",["C06/"],{"maxsys":2},T,expect=["C06/accepted"],bounds="0..2 syscalls, each a number of 1..4 symbolic digits < 2048, one of five names, or 'all'"))
c06.append(job("mask-1","rule","VH_EncodeMask",["C06/"],{"maxsys":1},QO,expect=["C06/accepted"],bounds="0..1 syscall: a number of 1..4 symbolic digits < 2048, one of five names, or 'all'"))
c06.append(job("mask-3","rule","VH_EncodeMask",["C06/"],{"maxsys":3},T,expect=["C06/accepted"],bounds="0..3 syscalls"))
for n in (0,1,2,63,64,65):
    c06.append(job(f"many-{n}","rule","VH_EncodeMany",["C06/"],{"filters":n,"key":1},Q,bounds=f"{n} pid filters with symbolic values + one key ({n+1} fields)"))
c06.append(job("many-64-nokey","rule","VH_EncodeMany",["C06/"],{"filters":64,"key":0},Q,bounds="64 filters, no key"))
c06.append(job("compare","rule","VH_EncodeCompare",["C06/"],{},Q,bounds="-C a<op>b for all 25 UAPI AUDIT_COMPARE_* pairs in both orders x {=, !=} (exhaustive), plus rejected pairs and operators"))
c06.append(job("build-history","rule","VH_BuildHistory",["C06/"],{},Q,expect=["C06/other-rule-rejected"],bounds="3 rules x 10 other rules (9 rejected at different error exits, after part of the rule was taken in; 1 accepted): Build(rule), Build(other), Build(rule) gives the same bytes"))
c06.append(job("watch","rule","VH_EncodeWatch",["C06/"],{},Q,bounds="file watches on a file, a directory and a non-existing path with a symbolic leaf (Stat stub), every list of 0..3 permissions (any order, repeats allowed), with/without key"))
C["C06"]={"jobs":c06,"assumptions":RULE_ASSUME+["UAPI constants and struct offsets come from /usr/include/linux/audit.h of this image via a compiled C program (uapi/extract.py); the field-name -> macro map is transcribed from audit-userspace's fieldtab.h",
   "the Rule struct is built directly (flag text parsing is C07/C14's subject)","the top 16 bits of the last mask word are not constrained for the all-syscalls pattern (kernel syscall-class bits)"],
   "outside":["strings longer than 3 symbolic bytes (length limits are checked by C13's concrete long strings)","user/group names other than root"]}

SHAPES=["aF","aFF","Fa","aS","aSk","aFk","Ak","aC","aCF","akk","aSS","w","wp","wk","wpk","pw","kw","D","Dk","F","S","C","aAF","aw","Dw","DaF","wF","","#aF","a#F","aF#","w#pk","wp#","D#","#D","aS#k","aSp","paS","aFp","Dp","pD","p","pk","Sp","Cp","wpp","pwp","wppk","wk#","aSk#","aFk#"]
c14=[]
for i,sh in enumerate(SHAPES):
    hole = 4 if sh.count("F")+sh.count("C")<=1 else 3
    ah = 2 if i>=36 and len(sh)>=3 else 3
    if sh=="wppk": ah = 1  # four holes: 0..3 bytes each is 250 000 paths and more
    c14.append(job("shape-"+(sh or "empty").replace("#","stray"),"rule/flags","VH_Tokens",["C14/"],{"shape":i,"hole":hole,"arghole":ah},Q,
       bounds=f"line shape '{sh}' (a/A: 5 list,action spellings; F/C: filter text of 0..{hole} symbolic ASCII bytes in single quotes; S/k/w/p: 0..{ah} symbolic bytes; #: a stray word)"))
    if ah<=2:
        c14.append(job("shape3-"+sh,"rule/flags","VH_Tokens",["C14/"],{"shape":i,"hole":hole,"arghole":3},T,bounds=f"line shape '{sh}' with S/k/w/p arguments of 0..3 symbolic bytes"))
    if sh.count("F")+sh.count("C")==1:
        c14.append(job("shape6-"+sh.replace("#","stray"),"rule/flags","VH_Tokens",["C14/"],{"shape":i,"hole":6,"arghole":4},T,bounds=f"line shape '{sh}' with filter text of 0..6 symbolic bytes"))
for sh in ("aFk","aSk","aC","wk"):
    c14.append(job("quoting-"+sh,"rule/flags","VH_Tokens",["C14/"],{"shape":SHAPES.index(sh),"hole":3,"arghole":2,"quoting":1},Q,
       bounds=f"line shape '{sh}' with every F/C/S/k/w/p argument written in single quotes, bare, or in double quotes (filter text 0..3, other arguments 0..2 symbolic ASCII bytes; bare: non-empty, no blanks; bare and double-quoted: none of \" \\ $ `)"))
for sh in ("akk","wk","w#pk","wk#","aSk#","aF#","aSk","wpk"):
    c14.append(job("lookalike-"+sh.replace("#","stray"),"rule/flags","VH_Tokens",["C14/"],{"shape":SHAPES.index(sh),"hole":2,"arghole":1,"mergeprelude":1},Q,
       bounds=f"line shape '{sh}' (holes of 0..1 symbolic bytes, filter text 0..2), parsed right after a look-alike line in which the last word or flag is folded into the quoted argument before it (-k 'a -k b' then -k a -k b; -k 'a foo' then -k a foo)"))
c14.append(job("parse-history","rule/flags","VH_ParseHistory",["C14/"],{},Q,expect=["C14/other-line-rejected"],bounds="4 lines x 12 other lines (11 rejected at different places, 1 accepted): Parse(line), Parse(other), Parse(line) give rules that build to the same bytes"))
C["C14"]={"jobs":c14,"assumptions":PARSE_ASSUME[:2]+["hole bytes are ASCII and free of single quotes, so shell quoting of the assembled line is exact","repeated single-valued flags (-w x -w y, -a .. -a ..) are outside the domain explored: the property does not say whether last-wins is acceptable",
   "filter text is compared after trimming surrounding white space and ignoring white space between field and operator (a parser that trims is not faulted, one that drops non-blank text is)"],
   "outside":["lines with more than 4 flags","filter text longer than 6 symbolic bytes","other quoting styles (double quotes, backslashes) in the assembled line"]}

PROGS=["pp|cm","pc|pm","pm|pc","pp|pc","pc|cp","cc|pp","mp|cm","pp|c|m","pc|p|c","p|p|c","ppp|cm","ppc|pm","m|pc","m|pp","mm|pc","m|p|c","m|cc","pm|cc","mc|pc"]
c11=[]
for i,pg in enumerate(PROGS):
    nth=pg.count("|")+1
    long_=len(pg.replace("|",""))>4
    for re_,rn in [(0,"plain"),(1,"reenter-maintain"),(2,"reenter-close"),(3,"reenter-push")]:
        quick = (nth==2 and not long_ and (re_==0 or i in (0,1) or (i>=16 and re_==2)))
        pre = 2
        c11.append(job(f"prog{i}-{rn}",".","VH_Concurrent",["C11/"],{"program":i,"reenter":re_,"preemptions":pre,"maxInFlight":1,"types":2},Q if quick else T,no_native=True,
            bounds=f"threads {pg} (p=push of seq in {{5,6}} x type in {{1300,1327}}, m=Maintain, c=Close), callback {rn}; every interleaving at synchronisation operations with at most {pre} preemptions; race detection by vector clocks"))
        if nth==2 and not long_ and re_==0:
            c11.append(job(f"prog{i}-{rn}-3preempt",".","VH_Concurrent",["C11/"],{"program":i,"reenter":re_,"preemptions":3,"maxInFlight":1,"types":3},T,no_native=True,
                bounds=f"threads {pg}, types incl. EOE, at most 3 preemptions"))
for i in (0,1,3,4,9,12):
    for mif in (2,4):
        c11.append(job(f"prog{i}-plain-mif{mif}",".","VH_Concurrent",["C11/"],{"program":i,"reenter":0,"preemptions":2,"maxInFlight":mif,"types":2},Q if mif==2 else T,no_native=True,
            bounds=f"threads {PROGS[i]}, maxInFlight={mif} (buffer not full: events stay buffered across the racing calls), at most 2 preemptions"))
for i in (1,3,9):
    for re_,rn in [(0,"plain"),(2,"reenter-close")]:
        c11.append(job(f"prog{i}-{rn}-gaps",".","VH_Concurrent",["C11/"],{"program":i,"reenter":re_,"preemptions":2,"maxInFlight":2,"types":2,"nseq":3},Q if re_==0 or i==1 else T,no_native=True,
            bounds=f"threads {PROGS[i]}, sequences in {{5,6,8}} (a gap: EventsLost fires, yields, and with reenter-close calls Close), maxInFlight=2, at most 2 preemptions"))
C["C11"]={"jobs":c11,"assumptions":["goroutines are engine threads; a context switch is offered only at synchronisation operations (mutex lock/unlock, sync/atomic, thread start/exit, callback entry); between two such points a thread runs alone, which is sound for assertion violations provided the program is race free, and race freedom is checked on every explored schedule (vector clocks over mutex, atomic, start/join edges)",
   "context bound: schedules with at most the stated number of preemptions","constant clock, timeout far in the future","counterexamples are confirmed in the engine's concrete mode (a native run cannot be forced into a schedule)"],
   "outside":["weak-memory effects below Go's happens-before model","more threads/operations/preemptions than stated","the randomly scheduled long runs under the race detector mentioned in the quantifier (sampling; not built)"]}

COAL_ASSUME=["the normalisation tables come from a table image regenerated natively from the current normalizations.yaml on every run (the YAML decoder itself is trusted)",
  "messages are built by a harness-side constructor with pre-parsed Data()/Tags() (C09) or through the real Parse with concrete text (C15)","field values are distinct concrete tokens (they are only moved, never inspected); the st_mode of the selected PATH record is symbolic (all 2^16 values)"]
c09=[job("file-object-any-nametype","aucoalesce","VH_FileObject",["C09/"],{"nsys":5,"maxpaths":3,"nametypes":5},Q,bounds="5 syscalls + 1..3 PATH records, one with a symbolic st_mode and any of the five nametypes (so also groups whose PATH records are all PARENT/UNKNOWN), the others PARENT"),
     job("file-object","aucoalesce","VH_FileObject",["C09/"],{"nsys":3,"maxpaths":2},Q,bounds="SYSCALL (open|rename|unlink) + 1..2 PATH records, the selected one with a symbolic 16-bit st_mode (all 65536 values) and nametype NORMAL|CREATE|DELETE, the other PARENT"),
     job("file-object-5sys-3paths","aucoalesce","VH_FileObject",["C09/"],{"nsys":5,"maxpaths":3},T,bounds="5 syscalls (incl. mknod, mount) + 1..3 PATH records, symbolic st_mode"),
     job("single-record","aucoalesce","VH_Conservation",["C09/"],{"shape":0,"named":1},T,bounds="one record of 6 types with every subset of a 16-key pool"),
     job("single-record-each-type","aucoalesce","VH_Conservation",["C09/"],{"shape":2,"attribute_by_value":1},Q,bounds="one record of every type the normalisation table knows, carrying every key that type's normalisations name (subject/object/how/source_ip/has_fields) plus 7 common keys, minus at most one key; values plain tokens or IP literals"),
     job("single-record-boundary-ids","aucoalesce","VH_Conservation",["C09/"],{"shape":0,"named":1,"boundaryvals":1,"attribute_by_value":1},Q,bounds="one record of 6 types with every subset of {ses, auid, uid, gid, pid, ppid, result}, one of the ids carrying 4294967295 / -1 / 0 / unset / 4294967294; a warning excuses a missing value only if the same record with a plain token in its place draws fewer warnings"),
     job("single-record-anytype","aucoalesce","VH_Conservation",["C09/"],{"shape":0,"named":0,"npool":6},T,bounds="one record of a symbolic 16-bit type (EOE excluded: not an event on its own) with every subset of a 6-key pool (result, addr, acct, exe, syscall, x1)",max_paths=400000),
     job("groups-2extra","aucoalesce","VH_Conservation",["C09/"],{"shape":1,"maxextra":2,"execve_extra":1,"attribute_by_value":1},Q,bounds="SYSCALL first / other record first / no SYSCALL, plus 0..2 further records from {PATH, EXECVE, SOCKADDR, CWD/PROCTITLE/AVC/BPRM_FCAPS with optional key collision, a record whose Data() fails}, in any order"),
     job("groups-3extra","aucoalesce","VH_Conservation",["C09/"],{"shape":1,"maxextra":3,"execve_extra":1},T,bounds="as above with 0..3 further records")]
C["C09"]={"jobs":c09,"assumptions":COAL_ASSUME+["any non-empty Warnings excuses a lost field (which wording 'names the problem' is not for the check to decide)","at most one EXECVE and one SOCKADDR record per group"],
  "outside":["groups with more than 4-5 records","the regex tokenizer (C05/C12)","ECS fields"]}
c15=[job("repeatable","aucoalesce","VH_Repeatable",["C15/"],{},Q,bounds="four concrete groups (execve with PATH/CWD/EXECVE, failed connect with SOCKADDR/PROCTITLE, USER_LOGIN, AVC+SYSCALL) through the real Parse: Data/Tags snapshots before and after, second coalesce equal, earlier event unchanged by a later coalesce")]
c15.append(job("broken-records","aucoalesce","VH_CoalesceBroken",["C15/"],{},Q,no_native=True,bounds="4 concrete groups with any one record (SYSCALL included) replaced by one whose Data() fails / that has no fields / with undecodable text, optionally a second failing record: event or error, no panic, second coalesce equal"))
c15.append(job("table-isolation","aucoalesce","VH_TableIsolation",["C15/"],{},Q,bounds="for every record type of the normalisation table: {that record, SYSCALL} in both orders x 4 syscall pairs (open/creat/connect/execve/setuid): first event unchanged by the second coalesce, same text coalesces to the same event again, no store into any list of the shared tables (frozen up to capacity)"))
c15.append(job("resolve-isolation-hardcoded","aucoalesce","VH_ResolveIsolation",["C15/"],{"mode":0},Q,bounds="uid and gid with the same numbers and different names hard-coded through HardcodeUsers/HardcodeGroups in either order, then ResolveIDs: every *uid gets the user name, every *gid the group name"))
c15.append(job("resolve-isolation-caches","aucoalesce","VH_ResolveIsolation",["C15/"],{"mode":1},Q,no_native=True,bounds="explicit user/group caches against a stub database where uid 1000/33 and gid 1000/33 have different names; 4 lookup histories (incl. lookups in an unrelated pair of caches) before ResolveIDsFromCaches"))
c15.append(job("concurrent-2",  "aucoalesce","VH_ConcurrentResolve",["C15/"],{"threads":2,"preemptions":2},Q,no_native=True,bounds="2 goroutines, each coalescing its own (different) group and resolving IDs against shared user/group caches; every interleaving at synchronisation operations with at most 2 preemptions; race detection (heap cells and maps) by vector clocks; results equal the sequential ones"))
c15.append(job("concurrent-2-expired",  "aucoalesce","VH_ConcurrentResolve",["C15/"],{"threads":2,"preemptions":2,"expired":1},Q,no_native=True,bounds="as concurrent-2 with caches whose entries are out of date as soon as they are stored (negative expiration): every lookup refreshes"))
c15.append(job("concurrent-2-nonsyscall",  "aucoalesce","VH_ConcurrentResolve",["C15/"],{"threads":2,"preemptions":2,"groupbase":2},Q,no_native=True,bounds="as concurrent-2 with the two groups whose first record is not a SYSCALL record (USER_LOGIN, AVC): record-type normalisation lookups race"))
c15.append(job("concurrent-3",  "aucoalesce","VH_ConcurrentResolve",["C15/"],{"threads":3,"preemptions":2},T,no_native=True,bounds="3 goroutines, at most 2 preemptions"))
c15.append(job("file-object-any-nametype","aucoalesce","VH_FileObject",["C15/"],{"nsys":5,"maxpaths":3,"nametypes":5},Q,bounds="never panics: SYSCALL (open|rename|unlink|mknod|mount) + 1..3 PATH records with a symbolic st_mode and every nametype, incl. groups whose PATH records are all PARENT/UNKNOWN"))
C["C15"]={"jobs":c15,"assumptions":COAL_ASSUME,"outside":["arbitrary message text (C05 covers the parser's totality)","ResolveIDs against real user databases"]}

RTF=["pid","uid","gid","auid","exit","msgtype","arch","path","exe","key","perm","filetype","a0","success","inode","subj_user","obj_uid","dir",
 "euid","suid","fsuid","egid","sgid","fsgid","obj_gid","ppid","devmajor","devminor","a1","a2","a3","saddr_fam","pers",
 "obj_user","obj_role","obj_type","obj_lev_low","obj_lev_high","subj_role","subj_type","subj_sen","subj_clr"]
RTF_FIRST=18
c07=[]
for i,f in enumerate(RTF):
    if f in ("key","dir","perm"): continue
    if i>=RTF_FIRST:
        c07.append(job("field-"+f,"rule/flags","VH_RoundTrip",["C07/"],{"shape":0,"field":i,"list":0,"digits":3,"smalldigits":3,"strmax":1,"maxkeys":0,"sysforms":2},Q,expect=["C07/accepted-by-build"],
           bounds=f"syscall rule with one {f} filter (every operator; 3 symbolic decimal digits / -1 / root / string of 0..1 plain bytes) x action x {{no -S, -S open|execve|all}}"))
        c07.append(job("field5-"+f,"rule/flags","VH_RoundTrip",["C07/"],{"shape":0,"field":i,"list":0,"digits":5,"smalldigits":4,"strmax":2,"maxkeys":1,"sysforms":3},T,expect=["C07/accepted-by-build"],bounds=f"as field-{f} with 5 symbolic digits, strings of 0..2 bytes, 0..1 key, -S by number"))
        continue
    lst = 2 if f=="msgtype" else 0
    wide = f in ("uid","gid","msgtype","a0")
    if wide:
        c07.append(job("field-"+f+"-fullrange","rule/flags","VH_RoundTrip",["C07/"],{"shape":0,"field":i,"list":lst,"digits":10,"smalldigits":4,"strmax":1,"maxkeys":0,"sysforms":1,"oneop":1},Q,expect=["C07/accepted-by-build"],
           bounds=f"syscall rule with one {f} filter, operator '=', value of 10 symbolic decimal digits over the full uint32 range (plus -1/4294967295/root/names), no -S, no key: Build -> ToCommandLine -> flags.Parse -> Build -> ToCommandLine"))
    narrow = f in ("msgtype","exit")  # values are looked up in name tables: one path per table entry
    c07.append(job("field-"+f,"rule/flags","VH_RoundTrip",["C07/"],{"shape":0,"field":i,"list":lst,"digits":4,"smalldigits":3,"strmax":2,"maxkeys":0 if narrow else 1,"sysforms":1 if narrow else 3,"oneop":1 if narrow else 0},Q,expect=["C07/accepted-by-build"],
       bounds=f"syscall rule with one {f} filter (every admissible operator, 4 symbolic decimal digits / names / strings of 1..3 plain bytes) x action x {{no -S, -S open|execve|all, -S 0|59|1000|2047}} x 0..1 key"))
    c07.append(job("field10-"+f,"rule/flags","VH_RoundTrip",["C07/"],{"shape":0,"field":i,"list":lst,"digits":10,"smalldigits":4,"strmax":2,"maxkeys":1,"sysforms":3},T,expect=["C07/accepted-by-build"],
       bounds=f"as field-{f} with 10 symbolic digits"))
for f in ("subj_user","obj_type","subj_clr"):
    c07.append(job("field-"+f+"-anyfirst","rule/flags","VH_RoundTrip",["C07/"],{"shape":0,"field":RTF.index(f),"list":0,"digits":3,"smalldigits":3,"strmax":1,"maxkeys":0,"sysforms":1,"anyfirst":1},Q,expect=["C07/accepted-by-build"],
       bounds=f"syscall rule with one {f} filter whose value is 1..2 plain bytes with any first byte (also '=', '!', '<', '>', '&', '-'), every operator Build admits"))
for (a,b) in [("uid","arch"),("arch","uid"),("path","perm"),("perm","path"),("dir","perm"),("exe","msgtype")]:
    if b=="msgtype": continue
    c07.append(job(f"two-{a}-{b}","rule/flags","VH_RoundTrip",["C07/"],{"shape":0,"field":RTF.index(a),"second":RTF.index(b),"list":0,"digits":3,"strmax":1,"maxkeys":1,"sysforms":2,"oneop":1,"realpath":1},Q,expect=["C07/accepted-by-build"],
       bounds=f"two filters in the order {a}, {b} (field order, watch-shaped rules)"))
import itertools
for trio in [("path","perm","uid"),("dir","perm","success")]:
    for (a,b,c) in itertools.permutations(trio):
        c07.append(job(f"three-{a}-{b}-{c}","rule/flags","VH_RoundTrip",["C07/"],{"shape":0,"field":RTF.index(a),"second":RTF.index(b),"third":RTF.index(c),"list":0,"digits":2,"strmax":1,"maxkeys":1,"sysforms":2,"oneop":1,"realpath":1},
            Q if trio[0]=="path" else T,expect=["C07/accepted-by-build"],bounds=f"three filters in the order {a}, {b}, {c} x {{no -S, -S open|execve|all}} x 0..1 key (string-table cursor, almost-watch-shaped rules)"))
for f,sf in (("pid",3),("path",2),("arch",3)):
    c07.append(job("prebuilt-field-"+f,"rule/flags","VH_RoundTrip",["C07/"],{"shape":0,"field":RTF.index(f),"list":0,"digits":2,"smalldigits":2,"strmax":1,"maxkeys":1,"sysforms":sf,"oneop":1,"prebuild":1},Q,expect=["C07/accepted-by-build"],
       bounds=f"as field-{f} (operator '=', 2 digits), after three other rules went through Build, ToCommandLine and flags.Parse in the same process (a 32-bit syscall rule with strings, keys and a comparison; a watch; a rejected rule)"))
c07.append(job("prebuilt-watch","rule/flags","VH_RoundTrip",["C07/"],{"shape":1,"prebuild":1},Q,expect=["C07/accepted-by-build"],bounds="file watches after the same three rules"))
c07.append(job("compare-alone","rule/flags","VH_RoundTrip",["C07/"],{"shape":0,"field":0,"list":0,"compare":2,"maxkeys":0,"sysforms":1},Q,expect=["C07/accepted-by-build"],bounds="syscall rule whose only filter is -C a<op>b: 25 UAPI pairs x both orders x {=, !=} x action"))
c07.append(job("compare-alone-S-key","rule/flags","VH_RoundTrip",["C07/"],{"shape":0,"field":0,"list":0,"compare":2,"maxkeys":1,"sysforms":3},T,expect=["C07/accepted-by-build"],bounds="as compare-alone x {no -S, -S name, -S number} x 0..1 key"))
c07.append(job("compare-after-filter","rule/flags","VH_RoundTrip",["C07/"],{"shape":0,"field":0,"list":0,"digits":2,"compare":1,"maxkeys":0,"sysforms":1,"oneop":1},Q,expect=["C07/accepted-by-build"],bounds="pid filter followed by a -C comparison (25 pairs x both orders x 2 operators)"))
c07.append(job("multikey","rule/flags","VH_RoundTrip",["C07/"],{"shape":0,"field":0,"list":0,"digits":2,"maxkeys":3,"sysforms":2,"oneop":1},Q,expect=["C07/accepted-by-build"],bounds="syscall rule with a pid filter and 0..3 keys of 1..2 plain bytes each (joined keys)"))
c07.append(job("long-strings","rule/flags","VH_RoundTrip",["C07/"],{"shape":2},Q,expect=["C07/accepted-by-build"],alloc_cap=262144,loop_cap=20000,bounds="five rules whose strings are each within Build's limits (path/exe up to 4096, key up to 256) and together 4-5 kB of string buffer, last byte symbolic"))
c07.append(job("watch","rule/flags","VH_RoundTrip",["C07/"],{"shape":1},Q,expect=["C07/accepted-by-build"],bounds="file watches on a file, a directory and a non-existing path (Stat stub) x 16 permission subsets x 0..1 key"))
C["C07"]={"jobs":c07,"assumptions":RULE_ASSUME+PARSE_ASSUME[:2]+["string values contain no white space, quotes, backslashes or control characters (ToCommandLine does not quote)","resolveIds=false","watch-shaped rules use paths the Stat stub (and any Linux file system) classifies the same way in both Build calls"],
   "outside":["rules with more than two filters","other architectures","resolveIds=true"]}
json.dump(C,open('/verif/checks.json','w'),indent=1)
print({k:len(v["jobs"]) for k,v in C.items()})
