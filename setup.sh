#!/bin/sh
# Build the symgo engine from files on disk only (offline).
set -e
cd "$(dirname "$0")"
export GOFLAGS=-mod=mod GOPROXY=off GOSUMDB=off GOTOOLCHAIN=local CGO_ENABLED=0
mkdir -p bin evidence replays
(cd engine && go build -o ../bin/symgo .)
echo "setup ok"
