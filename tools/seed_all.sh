#!/bin/sh
# tools/seed_all.sh: runs every stored seeded change against the quick check of the property it breaks
# (in a scratch worktree; /repo is not touched) and prints caught / MISSED.
cd /verif
for d in seeded/*/; do
  id=$(basename $d); prop=$(python3 -c "import json;print(json.load(open('$d/meta.json'))['breaks_property'])")
  out=$(SEED_SCRATCH=1 tools/seed_run.sh /verif/$d/patch.diff $prop quick 2>&1)
  if echo "$out" | grep -q "^VIOLATION"; then echo "caught  $id ($(echo "$out" | grep -m1 'label=' | sed 's/.*label=//; s/ msg=.*//'))"; else echo "MISSED  $id: $(echo "$out" | tail -2 | tr '\n' ' ')"; fi
done
