#!/bin/sh
# tools/run_jobs.sh <file with "PROP job" lines> [tier]: runs single jobs and prints one result line each
cd "$(dirname "$0")/.."
T=${2:-thorough}
while read p j; do
  s=$(date +%s); out=$(nice -n 5 ./check $p $T -job $j 2>&1 | grep -E "^OK|^VIOLATION|^INCONCLUSIVE" | head -3 | cut -c1-160 | tr '\n' ';'); e=$(date +%s)
  echo "$p $j $((e-s))s $out"
done < "$1"
