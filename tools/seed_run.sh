#!/bin/sh
# tools/seed_run.sh <patch.diff> <prop> [tier] [extra check args]
# Applies a seeded change to /repo, runs the check, and undoes the change straight afterwards.
set -u
P=$1; PROP=$2; TIER=${3:-quick}; shift; shift; shift 2>/dev/null
cd /repo && git apply "$P" || { echo "patch does not apply"; exit 2; }
cd /verif && timeout 3000 ./check $PROP $TIER "$@" > /tmp/seedrun.out 2>&1; rc=$?
git -C /repo checkout -- . ; git -C /repo status --short
grep "VIOLATION\|  label=\|INCONCLUSIVE\|^OK\|KNOWN" /tmp/seedrun.out | cut -c1-220 | head -12
echo "exit=$rc"
