#!/bin/sh
# tools/seed_run.sh <patch.diff> <prop> [tier] [extra check args]
# Runs a check against a seeded change. By default the change is applied to /repo and undone straight
# afterwards; with SEED_SCRATCH=1 it is applied to a scratch worktree under /tmp instead (VERIF_REPO),
# which leaves /repo untouched while other runs use it (the default; SEED_SCRATCH=0 applies to /repo itself).
# Scratch runs write their evidence to .work/evidence-scratch, never to evidence/.
set -u
P=$1; PROP=$2; TIER=${3:-quick}; shift; shift; shift 2>/dev/null
if [ "${SEED_SCRATCH:-1}" = 1 ]; then
  WT=/tmp/seedrun-$$
  git -C /repo worktree add -q --detach $WT HEAD || exit 2
  git -C $WT apply "$P" || { echo "patch does not apply"; git -C /repo worktree remove --force $WT; exit 2; }
  cd /verif && VERIF_REPO=$WT timeout 3000 ./check $PROP $TIER "$@" > /tmp/seedrun-$$.out 2>&1; rc=$?
  git -C /repo worktree remove --force $WT
  grep "VIOLATION\|  label=\|INCONCLUSIVE\|^OK\|KNOWN" /tmp/seedrun-$$.out | cut -c1-220 | head -12; rm -f /tmp/seedrun-$$.out
  echo "exit=$rc"; exit 0
fi
cd /repo && git apply "$P" || { echo "patch does not apply"; exit 2; }
cd /verif && timeout 3000 ./check $PROP $TIER "$@" > /tmp/seedrun.out 2>&1; rc=$?
git -C /repo checkout -- . ; git -C /repo status --short
grep "VIOLATION\|  label=\|INCONCLUSIVE\|^OK\|KNOWN" /tmp/seedrun.out | cut -c1-220 | head -12
echo "exit=$rc"
