#!/bin/sh
# tools/run_all.sh [quick|thorough] [props...]: runs the registered checks one after the other on the
# unchanged tree and prints one line each (used before committing evidence).
TIER=${1:-quick}; shift 2>/dev/null
cd /verif
PROPS=${*:-$(python3 -c "import json;print(' '.join(c['property_id'] for c in json.load(open('MANIFEST.json'))['checks']))")}
git -C /repo status --short | grep -q . && { echo "/repo has uncommitted changes"; exit 2; }
for p in $PROPS; do
  s=$(date +%s); ./check $p $TIER > .work-$p.out 2>&1; rc=$?; e=$(date +%s)
  echo "$p exit=$rc $((e-s))s $(grep -c '^KNOWN-FINDING' .work-$p.out) known $(grep -c '^VIOLATION' .work-$p.out) viol $(grep -c '^INCONCLUSIVE' .work-$p.out) inconcl"
  rm -f .work-$p.out
done
