#!/bin/sh
# tools/seed_proc.sh <prop> <dest-dir-in-tree> <go test -run regexp> [demo-file]
# One step of a seeded round: confirm the sub-agent's change under /tmp/seed-<prop>/ (seed_verify.sh), then run
# the property's quick check against it in a scratch worktree (seed_run.sh). Output: /tmp/seed-<prop>/proc.out
P=$1; DEST=$2; RUN=$3; SD=${SEED_DIR:-/tmp/seed-$P}
DEMO=${4:-$(cd $SD && ls *_test.go | head -1)}
exec 9>/tmp/seedproc.lock; flock 9
{
echo "== verify $P ($DEMO -> $DEST, -run $RUN)"
/verif/tools/seed_verify.sh $SD $DEMO $DEST "$RUN"
echo "== check $P quick"
s=$(date +%s); SEED_SCRATCH=1 /verif/tools/seed_run.sh $SD/patch.diff $P quick; e=$(date +%s); echo "took $((e-s))s"
} > $SD/proc.out 2>&1
cat $SD/proc.out
