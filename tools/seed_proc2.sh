#!/bin/sh
# tools/seed_proc2.sh <tag> <prop> <dest-dir-in-tree> <go test -run regexp>
# As seed_proc.sh for /tmp/seed-<tag>-<prop>/, with the two halves decoupled: the verification (pinned suite, shares the
# live audit socket) is serialised by a lock, the check against the change runs at once in a scratch worktree.
TAG=$1; P=$2; DEST=$3; RUN=$4; SD=/tmp/seed-$TAG-$P
DEMO=$(cd $SD && ls *_test.go | head -1)
( s=$(date +%s); SEED_SCRATCH=1 /verif/tools/seed_run.sh $SD/patch.diff $P quick > $SD/check.out 2>&1; e=$(date +%s); echo "took $((e-s))s" >> $SD/check.out ) &
( exec 9>/tmp/seedverify.lock; flock 9; /verif/tools/seed_verify.sh $SD $DEMO $DEST "$RUN" > $SD/verify.out 2>&1 )
wait
