#!/bin/sh
# tools/seed_verify.sh <seed-dir> <demo-file> <dest-dir-in-tree> <go test -run regexp> [pkg]
# Confirms in a scratch worktree (outside /repo and /verif) that: the patch applies, the module builds, the pinned
# suite passes with it, the demonstration fails with it and passes without it. Removes the worktree afterwards.
set -u
SEED=$1; DEMO=$2; DEST=$3; RUN=$4; PKG=${5:-./$DEST}
export GOFLAGS=-mod=mod GOPROXY=off GOSUMDB=off GOTOOLCHAIN=local
WT=/tmp/seedwt-$$
git -C /repo worktree add -q --detach $WT HEAD || exit 2
cd $WT
res() { echo "$1"; }
cp "$SEED/$DEMO" "$WT/$DEST/" 
go test -vet=off -count=1 -run "$RUN" $PKG >/tmp/seedwt-$$.base 2>&1 && res "demo passes on unchanged tree: yes" || { res "demo passes on unchanged tree: NO"; tail -5 /tmp/seedwt-$$.base; }
git apply "$SEED/patch.diff" && res "patch applies: yes" || res "patch applies: NO"
go build ./... && res "builds: yes" || res "builds: NO"
rm -f "$WT/$DEST/$DEMO"
go test -vet=off -count=1 ./... >/tmp/seedwt-$$.suite 2>&1 && res "pinned suite passes with patch: yes" || { res "pinned suite passes with patch: NO"; grep -v "^ok\|no test files" /tmp/seedwt-$$.suite | tail -8; }
cp "$SEED/$DEMO" "$WT/$DEST/"
go test -vet=off -count=1 -run "$RUN" $PKG >/tmp/seedwt-$$.mut 2>&1 && res "demo fails with patch: NO (it passed)" || res "demo fails with patch: yes"
cd /; git -C /repo worktree remove --force $WT; rm -f /tmp/seedwt-$$.*
