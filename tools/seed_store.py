#!/usr/bin/env python3
# tools/seed_store.py <id> <prop> <seed-dir> <demo-file> <dest> <run-regexp> <caught:yes|no|partly> <by-check> <notes>
import sys, json, shutil, os
sid, prop, sd, demo, dest, run, caught, by, notes = sys.argv[1:10]
d = f"/verif/seeded/{sid}"
os.makedirs(d, exist_ok=True)
shutil.copy(f"{sd}/patch.diff", d)
shutil.copy(f"{sd}/{demo}", d)
meta = {"id": sid, "breaks_property": prop, "what_it_needs_to_manifest": open(f"{sd}/meta.txt").read().strip(),
        "demonstration": {"file": demo, "goes_to": dest, "run": f"GOFLAGS=-mod=mod GOPROXY=off go test -vet=off -count=1 -run '{run}' ./{dest}"},
        "confirmed_by": "tools/seed_verify.sh in a scratch worktree under /tmp: patch applies, builds, pinned suite passes with it, demonstration fails with it and passes without it",
        "origin": "written by a fresh sub-agent that saw only the property text and its own worktree",
        "detected_by_checks": caught, "detecting_check": by, "notes": notes}
json.dump(meta, open(f"{d}/meta.json", "w"), indent=1)
print("stored", d)
