#!/bin/sh
# runs every thorough check one after the other (background use: vp run -- tools/thorough_all.sh)
cd "$(dirname "$0")/.."
./setup.sh >/dev/null 2>&1
for p in ${*:-C16 C17 C18 C08 C20 C15 C09 C11 C19 C04 C12 C13 C14 C07 C06 C05 C10 C01 C02 C03}; do
  s=$(date +%s); timeout 7200 ./check $p thorough > thorough-$p.log 2>&1; rc=$?; e=$(date +%s)
  echo "$p exit=$rc $((e-s))s $(grep -c '^KNOWN-FINDING' thorough-$p.log) known $(grep -c '^VIOLATION' thorough-$p.log) viol $(grep -c '^INCONCLUSIVE' thorough-$p.log) inconcl"
  grep '^INCONCLUSIVE\|^VIOLATION' thorough-$p.log | cut -c1-200 | sort | uniq -c | head -5
done
