#!/usr/bin/env python3
# tools/seed_prompts.py <round-tag> [prop ...]: writes /tmp/agent-prompt-<tag>-<prop>.txt for every property from tools/agent_prompt.tmpl
# (property text, a scratch worktree /tmp/wt-<tag>-<prop> of /repo's HEAD, the ideas already stored under seeded/ for that property)
# and creates the worktrees and the result directories /tmp/seed-<tag>-<prop>/. The sub-agent gets only that file.
import json, os, subprocess, sys
tag = sys.argv[1]
only = set(sys.argv[2:])  # optional: property ids
tmpl = open('/verif/tools/agent_prompt.tmpl').read().replace('seed-PID', 'seed-@@ID@@').replace('WT', '@@WT@@')
for l in open('/verif/properties.jsonl'):
    p = json.loads(l); pid = p['id']
    if only and pid not in only:
        continue
    prior = []
    for d in sorted(os.listdir('/verif/seeded')):
        if d.startswith(pid + '-'):
            m = json.load(open(f'/verif/seeded/{d}/meta.json'))
            prior.append(f"  - {d[4:]}: " + m.get('what_it_needs_to_manifest', '').strip().replace('\n', ' ')[:170])
    text = f"{p['title']}\n\n{p['statement']}\n\nQuantified over: {p['quantifier']['text']}"
    wt = f'/tmp/wt-{tag}-{pid}'
    t = tmpl.replace('@@WT@@', wt).replace('@@ID@@', f'{tag}-{pid}').replace('PROPTEXT', text).replace('PRIOR', '\n'.join(prior))
    open(f'/tmp/agent-prompt-{tag}-{pid}.txt', 'w').write(t)
    os.makedirs(f'/tmp/seed-{tag}-{pid}', exist_ok=True)
    subprocess.run(['git', '-C', '/repo', 'worktree', 'add', '-q', '--detach', wt, 'HEAD'])
